#!/usr/bin/env python3
"""usage: tools/tiernumbers.py <sweep log>...   -> tools/tier_numbers.json (summary lines 'Cxx thorough: states=.. transitions=.. wall=..s')"""
import json, re, sys
out = {}
for f in sys.argv[1:]:
    for l in open(f, errors='replace'):
        m = re.match(r"(C\d\d) thorough: states=(\d+) transitions=(\d+) .*wall=([0-9.]+)s", l)
        if m:
            out[m.group(1)] = {"states": int(m.group(2)), "transitions": int(m.group(3)), "wall": "%.0f s" % float(m.group(4))}
json.dump(out, open('/verif/tools/tier_numbers.json', 'w'), indent=1, sort_keys=True)
print(len(out), "checks")
