#!/usr/bin/env python3
"""Development aid (not a registered check): mechanical mutation of typify-impl in a private lane, to measure which
single-token changes the quick tiers notice. usage: mutate.py gen <n_per_file> > mutants.json ; mutate.py run <lane_dir> <mutants.json> <from> <to>"""
import json, os, random, re, subprocess, sys, time

SRC = "/repo/typify-impl/src"
FILES = ["convert.rs", "merge.rs", "enums.rs", "structs.rs", "type_entry.rs", "defaults.rs", "value.rs", "util.rs", "cycles.rs", "lib.rs", "validate.rs", "rust_extension.rs"]
OPS = [
    (r" == ", " != "), (r" != ", " == "), (r" < ", " <= "), (r" > ", " >= "), (r" <= ", " < "), (r" >= ", " > "), (r" && ", " || "), (r" \|\| ", " && "),
    (r"\btrue\b", "false"), (r"\bfalse\b", "true"), (r"\.min\(", ".max("), (r"\.max\(", ".min("), (r" \+ 1\b", " - 1"), (r" - 1\b", " + 1"),
    (r"\.is_some\(\)", ".is_none()"), (r"\.is_none\(\)", ".is_some()"), (r"\.is_empty\(\)", ".len() == 1"), (r"\.all\(", ".any("), (r"\.any\(", ".all("),
    (r"\bSome\(0\)", "Some(1)"), (r"\.first\(\)", ".last()"), (r"\.iter\(\)\n", None),
]
ORDER = ["C16", "C13", "C08", "C07", "C18", "C06", "C11", "C10", "C05", "C19", "C17", "C09", "C01", "C02", "C03", "C12", "C14", "C04"]


def covered_lines():
    cur, cov = None, {}
    for line in open("/tmp/cov/show.txt", errors="replace"):
        if line.startswith("/") and line.rstrip().endswith(":"):
            cur = os.path.basename(line.strip()[:-1]); continue
        m = re.match(r"\s*(\d+)\|\s*([0-9.kKmM]+)\|", line)
        if m and cur and m.group(2) not in ("0",):
            cov.setdefault(cur, set()).add(int(m.group(1)))
    return cov


def gen(n_per_file):
    rnd = random.Random(20261003)
    cov = covered_lines()
    out = []
    for f in FILES:
        src = open(os.path.join(SRC, f)).read().split("\n")
        test_start = next((i for i, l in enumerate(src) if l.strip().startswith("#[cfg(test)]") and i + 1 < len(src) and src[i + 1].strip().startswith("mod tests")), len(src))
        cands = []
        for i, l in enumerate(src[:test_start]):
            ln = i + 1
            s = l.strip()
            if ln not in cov.get(f, ()) or s.startswith("//") or any(w in s for w in ("debug!", "info!", "assert", "unreachable!", "panic!", "todo!", "unimplemented!", "format!", "#[")):
                continue
            for (pat, rep) in OPS:
                if rep is None:
                    continue
                for m in re.finditer(pat, l):
                    cands.append((ln, pat, rep, m.start()))
        rnd.shuffle(cands)
        for (ln, pat, rep, pos) in cands[:n_per_file]:
            l = src[ln - 1]
            m = re.compile(pat).search(l, pos)
            new = l[:m.start()] + rep + l[m.end():]
            out.append({"file": f, "line": ln, "old": l, "new": new})
    for i, m in enumerate(out):
        m["id"] = "M%03d" % i
    json.dump(out, sys.stdout, indent=0)


def sh(cmd, cwd, env=None, timeout=3600):
    p = subprocess.run(cmd, shell=True, cwd=cwd, env=env, stdout=subprocess.PIPE, stderr=subprocess.STDOUT, timeout=timeout)
    return p.returncode, p.stdout.decode(errors="replace")


def run(lane, mfile, lo, hi):
    ms = json.load(open(mfile))[lo:hi]
    repo, verif = lane + "/repo", lane + "/verif"
    env = dict(os.environ, VERIF_REPO=repo, CARGO_NET_OFFLINE="true")
    log = open(lane + "/mutants.tsv", "a")
    for m in ms:
        sh("git checkout -- .", repo)
        path = os.path.join(repo, "typify-impl/src", m["file"])
        src = open(path).read().split("\n")
        if src[m["line"] - 1] != m["old"]:
            print(m["id"], "STALE", file=log, flush=True); continue
        src[m["line"] - 1] = m["new"]
        open(path, "w").write("\n".join(src))
        t0 = time.time()
        rc, out = sh("cargo +1.80.1 build --offline -p tvadapter", verif + "/engine", env)
        if rc != 0:
            print("\t".join([m["id"], m["file"], str(m["line"]), "NOCOMPILE", "", m["new"].strip()[:100]]), file=log, flush=True); continue
        verdict, by = "SURVIVED", ""
        for c in ORDER:
            rc, out = sh("./check %s --tier quick" % c, verif, env)
            if rc == 1:
                verdict, by = "DETECTED", c; break
            if rc != 0:
                verdict, by = "DETECTED", c + "(machinery exit %d)" % rc; break
        suite = ""
        if verdict == "SURVIVED":
            rc, out = sh("CARGO_TARGET_DIR=%s/target-suite cargo +1.80.1 test --workspace --no-fail-fast --offline 2>&1 | grep -E '^test result|FAILED' | head -30" % lane, repo, env)
            suite = "suite-fails" if "FAILED" in out or " failed;" in out and re.search(r"[1-9]\d* failed", out) else "suite-passes"
        print("\t".join([m["id"], m["file"], str(m["line"]), verdict, by or suite, "%ds" % (time.time() - t0), m["new"].strip()[:110]]), file=log, flush=True)
    sh("git checkout -- .", repo)


if __name__ == "__main__":
    if sys.argv[1] == "gen":
        gen(int(sys.argv[2]))
    else:
        run(sys.argv[2], sys.argv[3], int(sys.argv[4]), int(sys.argv[5]))
