#!/usr/bin/env python3
"""Confirm a seeded mutant produced by a sub-agent, in its scratch worktree (never in /repo):
   suite passes with the patch, demo fails with it, demo passes without it. Then file it under /verif/seeded/<tag>/."""
import argparse, json, os, re, shutil, subprocess, sys
ap = argparse.ArgumentParser()
ap.add_argument("tag"); ap.add_argument("--place", action="append", default=[]); ap.add_argument("--demo-cmd", required=True)
ap.add_argument("--needs", default=""); ap.add_argument("--skip-suite", action="store_true")
a = ap.parse_args()
wt = "/tmp/wt/" + a.tag; so = "/tmp/seedout/" + a.tag
env = dict(os.environ, CARGO_TARGET_DIR=wt + "/target", CARGO_NET_OFFLINE="true")
def sh(cmd, check=False):
    p = subprocess.run(cmd, shell=True, cwd=wt, env=env, stdout=subprocess.PIPE, stderr=subprocess.STDOUT)
    return p.returncode, p.stdout.decode(errors="replace")
sh("git checkout -- . && git clean -fdq -e target")
rc, out = sh("git apply %s/patch.diff" % so)
assert rc == 0, out
ran = {}
if not a.skip_suite:
    rc, out = sh("cargo test --workspace --no-fail-fast --offline 2>&1")
    passed = sum(int(x) for x in re.findall(r"test result: \w+\. (\d+) passed", out))
    failed = sum(int(x) for x in re.findall(r"test result: \w+\. \d+ passed; (\d+) failed", out))
    ran["suite_with_patch"] = {"rc": rc, "passed": passed, "failed": failed}
    print("suite with patch:", ran["suite_with_patch"])
    assert rc == 0 and failed == 0, out[-3000:]
placed = []
for pl in a.place:
    src, dst = pl.split(":")
    src = os.path.join(so, "demo", src); dstp = os.path.join(wt, dst)
    os.makedirs(os.path.dirname(dstp), exist_ok=True)
    shutil.copy(src, dstp); placed.append(dstp)
rc1, out1 = sh(a.demo_cmd + " 2>&1")
print("demo with patch rc=", rc1); ran["demo_with_patch_rc"] = rc1
assert rc1 != 0, out1[-2000:]
rc, out = sh("git apply -R %s/patch.diff" % so); assert rc == 0, out
rc2, out2 = sh(a.demo_cmd + " 2>&1")
print("demo without patch rc=", rc2); ran["demo_without_patch_rc"] = rc2
assert rc2 == 0, out2[-3000:]
for p in placed: os.remove(p)
sh("git checkout -- . && git clean -fdq -e target")
dst = "/verif/seeded/" + a.tag
if os.path.exists(dst): shutil.rmtree(dst)
os.makedirs(dst)
shutil.copy(so + "/patch.diff", dst + "/patch.diff")
shutil.copytree(so + "/demo", dst + "/demo")
if os.path.exists(so + "/notes.md"): shutil.copy(so + "/notes.md", dst + "/notes.md")
meta = {"id": a.tag, "property": a.tag[:3], "needs": a.needs, "base_commit": "c7dbd94 (pinned snapshot)",
        "confirmed": {"where": "scratch worktree " + wt, "suite_cmd": "cargo test --workspace --no-fail-fast --offline",
                      "demo_cmd": a.demo_cmd, "places": a.place, **ran}, "detected_by": []}
json.dump(meta, open(dst + "/meta.json", "w"), indent=1)
print("filed", dst)
