#!/usr/bin/env python3
"""usage: tools/kfaudit.py <log>...   lists known findings whose id never occurs in a 'KNOWN-FINDING:' line of the given check logs
(quick and thorough logs of every check on the unchanged tree). Such a finding matches nothing any more and must be deleted: a stale
finding can only ever hide a regression."""
import json, re, sys
seen = set()
for f in sys.argv[1:]:
    for l in open(f, errors='replace'):
        m = re.match(r"KNOWN-FINDING: property=\S+ (\S+)", l)
        if m:
            seen.add(m.group(1))
kf = json.load(open('/verif/known-findings.json'))
stale = [f['id'] for f in kf['findings'] if f['id'] not in seen]
print("findings:", len(kf['findings']), "reported:", len(seen & {f['id'] for f in kf['findings']}), "stale:", stale)
