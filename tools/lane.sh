#!/bin/bash
# Development aid (not a registered check): regression of every filed seed in a private lane under /tmp/lane
# (a scratch worktree of /repo + a copy of /verif), so /repo and /verif stay free for other work.
#   tools/lane.sh sync            refresh the lane's copy of tv/, known-findings.json, seeded/ and reset its repo to /repo's HEAD
#   tools/lane.sh run [tags...]   apply each seed in the lane's repo, run its property's quick check, undo; one line per seed
L=${LANE:-/tmp/lane}
export VERIF_REPO=$L/repo
case "$1" in
 sync)
  [ -d $L/repo ] || git -C /repo worktree add --detach $L/repo HEAD -q
  git -C $L/repo checkout -q --detach $(git -C /repo rev-parse HEAD) && git -C $L/repo checkout -- .
  rsync -a --delete --exclude work --exclude replays --exclude .git --exclude evidence /verif/ $L/verif/
  mkdir -p $L/verif/evidence
  sed -i "s#/repo/typify-impl#$L/repo/typify-impl#" $L/verif/engine/adapter/Cargo.toml
  [ -d $L/verif/work ] || (cd $L/verif && ./setup.sh > $L/setup.log 2>&1; echo "lane setup rc=$?")
  ;;
 run)
  shift
  tags=${@:-$(ls /verif/seeded)}
  cd $L/verif
  for tag in $tags; do
    prop=${tag:0:3}; [ -n "$PROP" ] && prop=$PROP
    p=/verif/seeded/$tag/patch.diff; [ -f /verif/seeded/$tag/patch.rebased.diff ] && p=/verif/seeded/$tag/patch.rebased.diff
    [ -f $p ] || continue
    git -C $L/repo checkout -- . ; git -C $L/repo apply $p 2>/dev/null || { echo "$tag PATCH-DOES-NOT-APPLY"; continue; }
    ./check $prop --tier ${TIER:-quick} > $L/out_${tag}_$prop.log 2>&1; rc=$?
    git -C $L/repo checkout -- .
    nv=$(grep -c '^VIOLATION' $L/out_${tag}_$prop.log)
    first=$(grep '^VIOLATION' $L/out_${tag}_$prop.log | head -1 | sed 's/.*# //' | cut -c1-150)
    echo "$tag $prop exit=$rc violations=$nv $first"
  done
  ;;
esac
