#!/usr/bin/env python3
"""Regenerates the data-driven tail of DESIGN.md (sections 13 and 14) from known-findings.json, seeded/*/meta.json and the
fix: commits in /repo. Sections 1-12 live in tools/design_head.md (edit that file, then run this)."""
import glob, json, subprocess
head = open('/verif/tools/design_head.md').read()
kf = json.load(open('/verif/known-findings.json'))
seeds = [json.load(open(d)) for d in sorted(glob.glob('/verif/seeded/*/meta.json'))]
fixlog = subprocess.check_output(['git', '-C', '/repo', 'log', '--format=%h %s', 'c7dbd94..HEAD']).decode().strip().split('\n')
t = [head]
t.append("""
## 13. Genuine defects found on the pinned tree: fixes and known findings

Each was shown with a failing input against the real code (the exemplar in known-findings.json or the commit message).
**Fixed** by minimal unguarded `fix:` commits in /repo (the unedited suite passes after each: 132 tests + 13 doctests):

""")
for l in reversed(fixlog):
    if l.split(' ', 1)[1].startswith('fix:'):
        t.append("* `%s` %s\n" % (l.split()[0], l.split(' ', 1)[1]))
t.append("""
Two candidate repairs were tried and **abandoned because they change the repository's snapshot fixtures** (so they cannot
be `fix:` commits): making `has_impl(Display)` false for constrained string newtypes, or emitting the missing `impl Display`
(recorded as C17-KF1).

**Recorded** in `known-findings.json` (suppressed only for the listed inputs; `match.features` are equalities over the
input-derived feature vector of a case, `all_items` a predicate every failing input of the case must satisfy, so a
different violation in the same case is still reported):

""")
for f in kf['findings']:
    t.append("* **%s** (%s): %s\n" % (f['id'], f['property'], f['title']))
def _unchanged(m):
    st = (m.get('strengthening') or '').lower()
    return st.startswith('none') or st.startswith('no change') or st.startswith('caught by')
_rounds = {}
for m in seeds:
    r = m['id'][-1]
    a = _rounds.setdefault(r, [0, 0])
    a[1] += 1
    if 'strengthening' in m and _unchanged(m):
        a[0] += 1
ROUND_STATS = ", ".join("round %d: %s of %d" % (ord(r) - 96, (str(v[0]) if r != 'a' else "all (after the round-1 strengthening listed below the table)"), v[1]) for r, v in sorted(_rounds.items()))
t.append("""
## 14. Seeded property-breaking changes and detection

One fresh sub-agent per seed was given only the property text and a scratch worktree and asked for a realistic change
that compiles, passes the unedited suite and needs something specific to manifest. Each was re-confirmed with
`tools/verify_seed.py` in its worktree (suite 145 passed with the patch; demonstration fails with it and passes without it)
and filed under `seeded/<id>/` (patch.diff, demo/, notes.md, meta.json). `tools/try_seed.sh <id> <Cxx>` applies the patch to
/repo, runs the check and restores the tree; from round 3 on the seeds are exercised in a private lane instead
(`tools/lane.sh`: a scratch worktree of /repo plus a copy of /verif under /tmp/lane), first with the framework as it stood
before the seed's summary was read (the honest 'caught unchanged?' answer), then with the current one; `tools/lane.sh run`
without arguments is the regression over all filed seeds.

Rounds (suffix a..f = round 1..6). The last column says whether the tier as it stood caught the seed. Per round, seeds caught
without any change to the framework: %s. The misses are what drove the systematic families of section 12: every miss was
turned into a dimension of a product (not into a copy of the seed's input), and every filed seed is caught by the current
quick tier of its property.

| seed | what it needs to manifest | caught by | check changed because of this seed? |
|---|---|---|---|
""" % ROUND_STATS)
for m in seeds:
    det = "; ".join("%s %s: %s" % (d['check'], d['tier'], d['result']) for d in m.get('detected_by', [])) or "(not yet run)"
    t.append("| %s | %s | %s | %s |\n" % (m['id'], m.get('needs', '').replace('|', '/'), det.replace('|', '/'), m.get('strengthening', '(round 1: see the list below the table)').replace('|', '/')))
t.append(open('/verif/tools/design_tail_notes.md').read())
open('/verif/DESIGN.md', 'w').write("".join(t))
