#!/usr/bin/env python3
"""Regenerates the data-driven tail of DESIGN.md (sections 13 and 14) from known-findings.json, seeded/*/meta.json and the
fix: commits in /repo. Sections 1-12 live in tools/design_head.md (edit that file, then run this)."""
import glob, json, subprocess
head = open('/verif/tools/design_head.md').read()
kf = json.load(open('/verif/known-findings.json'))
seeds = [json.load(open(d)) for d in sorted(glob.glob('/verif/seeded/*/meta.json'))]
fixlog = subprocess.check_output(['git', '-C', '/repo', 'log', '--format=%h %s', 'c7dbd94..HEAD']).decode().strip().split('\n')
def _tiers():
    """table of tier sizes: quick from the evidence files of the last clean run, thorough from tools/tier_numbers.json (copied from the last
    full thorough sweep's summary lines by tools/tiernumbers.py)"""
    import os
    th = json.load(open('/verif/tools/tier_numbers.json')) if os.path.exists('/verif/tools/tier_numbers.json') else {}
    rows = ["**Tiers as measured** (this sandbox, 16 cores, warm build caches; states = cases whose every step ran on the implementation, "
            "transitions = implementation steps / probes judged; quick from the committed evidence files - measured uncached while the thorough sweep was running on the same machine, so roughly twice their idle wall time: a fresh-copy run of all 19 quick checks took 13 minutes in total - thorough from the last full sweep; C07's thorough tier peaks at about 11 GB of memory, C16's at about 32 GB):\n\n",
            "| check | quick states | quick transitions | quick wall | thorough states | thorough transitions | thorough wall |\n|---|---|---|---|---|---|---|\n"]
    for i in range(1, 20):
        c = "C%02d" % i
        try:
            e = json.load(open('/verif/evidence/%s.json' % c))
            q = (e['coverage'].get('states'), e['coverage'].get('transitions'), "%.0f s" % e.get('wall_s', 0))
        except Exception:
            q = ("-", "-", "-")
        t_ = th.get(c, {})
        rows.append("| %s | %s | %s | %s | %s | %s | %s |\n" % (c, q[0], q[1], q[2], t_.get('states', '-'), t_.get('transitions', '-'), t_.get('wall', '-')))
    return "".join(rows)
head = head.replace('%%TIERS%%', _tiers())
t = [head]
t.append("""
## 13. Genuine defects found on the pinned tree: fixes and known findings

Each was shown with a failing input against the real code (the exemplar in known-findings.json or the commit message).
**Fixed** by minimal unguarded `fix:` commits in /repo (the unedited suite passes after each: 132 tests + 13 doctests):

""")
for l in reversed(fixlog):
    if l.split(' ', 1)[1].startswith('fix:'):
        t.append("* `%s` %s\n" % (l.split()[0], l.split(' ', 1)[1]))
t.append("""
Two candidate repairs were tried and **abandoned because they change the repository's snapshot fixtures** (so they cannot
be `fix:` commits): making `has_impl(Display)` false for constrained string newtypes, or emitting the missing `impl Display`
(recorded as C17-KF1).

**Recorded** in `known-findings.json` (suppressed only for the listed inputs; `match.features` are equalities over the
input-derived feature vector of a case, `all_items` a predicate every failing input of the case must satisfy, so a
different violation in the same case is still reported):

""")
for f in kf['findings']:
    t.append("* **%s** (%s): %s\n" % (f['id'], f['property'], f['title']))
def _unchanged(m):
    st = (m.get('strengthening') or '').lower()
    return st.startswith('none') or st.startswith('no change') or st.startswith('caught by')
_rounds = {}
for m in seeds:
    r = m.get('round') or (ord(m['id'][-1]) - 96)   # rounds 1-6: by suffix letter (a few properties skipped a round, so their letters lag by one)
    a = _rounds.setdefault(r, [0, 0])
    a[1] += 1
    if m.get('caught_as_stood') is True or ('caught_as_stood' not in m and 'strengthening' in m and _unchanged(m)):
        a[0] += 1
ROUND_STATS = ", ".join("round %d: %s of %d" % (r, (str(v[0]) if r != 1 else "all (after the round-1 strengthening listed below the table)"), v[1]) for r, v in sorted(_rounds.items()))
t.append("""
## 14. Seeded property-breaking changes and detection

One fresh sub-agent per seed was given only the property text and a scratch worktree and asked for a realistic change
that compiles, passes the unedited suite and needs something specific to manifest. Each was re-confirmed with
`tools/verify_seed.py` in its worktree (suite 145 passed with the patch; demonstration fails with it and passes without it)
and filed under `seeded/<id>/` (patch.diff, demo/, notes.md, meta.json). `tools/try_seed.sh <id> <Cxx>` applies the patch to
/repo, runs the check and restores the tree; from round 3 on the seeds are exercised in a private lane instead
(`tools/lane.sh`: a scratch worktree of /repo plus a copy of /verif under /tmp/lane), first with the framework as it stood
before the seed's summary was read (the honest 'caught unchanged?' answer), then with the current one; `tools/lane.sh run`
without arguments is the regression over all filed seeds.

Rounds: the suffix letter orders the seeds of one property (a..f = rounds 1..6 up to a lag of one for five properties that skipped a
round; from round 7 on meta.json carries the round). The last column says whether the tier as it stood caught the seed. Per round,
seeds caught by SOME registered quick check without any change to the framework (from round 7: by any check; before: by the property's own): %s. The misses are what drove the systematic families of section 12: every miss was
turned into a dimension of a product (not into a copy of the seed's input), and every filed seed except C12l (round 14; see its row) is caught by the current
quick tier of its property or of the neighbouring property named in its row.

| seed | what it needs to manifest | caught by | check changed because of this seed? |
|---|---|---|---|
""" % ROUND_STATS)
for m in seeds:
    det = "; ".join("%s %s: %s" % (d['check'], d['tier'], d['result']) for d in m.get('detected_by', [])) or "(not yet run)"
    t.append("| %s | %s | %s | %s |\n" % (m['id'], m.get('needs', '').replace('|', '/'), det.replace('|', '/'), m.get('strengthening', '(round 1: see the list below the table)').replace('|', '/')))
t.append(open('/verif/tools/design_tail_notes.md').read())
open('/verif/DESIGN.md', 'w').write("".join(t))
