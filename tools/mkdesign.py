#!/usr/bin/env python3
"""Regenerates the data-driven tail of DESIGN.md (sections 13 and 14) from known-findings.json, seeded/*/meta.json and the
fix: commits in /repo. Sections 1-12 live in tools/design_head.md (edit that file, then run this)."""
import glob, json, subprocess
head = open('/verif/tools/design_head.md').read()
kf = json.load(open('/verif/known-findings.json'))
seeds = [json.load(open(d)) for d in sorted(glob.glob('/verif/seeded/*/meta.json'))]
fixlog = subprocess.check_output(['git', '-C', '/repo', 'log', '--format=%h %s', 'c7dbd94..HEAD']).decode().strip().split('\n')
t = [head]
t.append("""
## 13. Genuine defects found on the pinned tree: fixes and known findings

Each was shown with a failing input against the real code (the exemplar in known-findings.json or the commit message).
**Fixed** by minimal unguarded `fix:` commits in /repo (the unedited suite passes after each: 132 tests + 13 doctests):

""")
for l in reversed(fixlog):
    if l.split(' ', 1)[1].startswith('fix:'):
        t.append("* `%s` %s\n" % (l.split()[0], l.split(' ', 1)[1]))
t.append("""
Two candidate repairs were tried and **abandoned because they change the repository's snapshot fixtures** (so they cannot
be `fix:` commits): making `has_impl(Display)` false for constrained string newtypes, or emitting the missing `impl Display`
(recorded as C17-KF1).

**Recorded** in `known-findings.json` (suppressed only for the listed inputs; `match.features` are equalities over the
input-derived feature vector of a case, `all_items` a predicate every failing input of the case must satisfy, so a
different violation in the same case is still reported):

""")
for f in kf['findings']:
    t.append("* **%s** (%s): %s\n" % (f['id'], f['property'], f['title']))
t.append("""
## 14. Seeded property-breaking changes and detection

One fresh sub-agent per seed was given only the property text and a scratch worktree and asked for a realistic change
that compiles, passes the unedited suite and needs something specific to manifest. Each was re-confirmed with
`tools/verify_seed.py` in its worktree (suite 145 passed with the patch; demonstration fails with it and passes without it)
and filed under `seeded/<id>/` (patch.diff, demo/, notes.md, meta.json). `tools/try_seed.sh <id> <Cxx>` applies the patch to
/repo, runs the check and restores the tree. Results:

| seed | what it needs to manifest | caught by | check changed because of this seed? |
|---|---|---|---|
""")
for m in seeds:
    det = "; ".join("%s %s: %s" % (d['check'], d['tier'], d['result']) for d in m.get('detected_by', [])) or "(not yet run)"
    t.append("| %s | %s | %s | %s |\n" % (m['id'], m.get('needs', '').replace('|', '/'), det.replace('|', '/'), m.get('strengthening', '(round 1: see the list below the table)').replace('|', '/')))
t.append(open('/verif/tools/design_tail_notes.md').read())
open('/verif/DESIGN.md', 'w').write("".join(t))
