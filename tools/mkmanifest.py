#!/usr/bin/env python3
"""Regenerates /verif/MANIFEST.json from the table below (kept here so the manifest stays consistent)."""
import json, os, subprocess
HERE = os.path.dirname(os.path.dirname(os.path.abspath(__file__)))
ALL = ["C%02d" % i for i in range(1, 20)]

COMMON_NOTE = ("Trusted base: rustc/cargo 1.80.1, serde/serde_json, syn, python jsonschema 4.26 (validity oracle), the adapter "
               "(engine/adapter, no judgement) and the per-property reference oracle in tv/props. Exhaustive only within the stated bound; "
               "see DESIGN.md section 4 'Outside' for what the bound leaves open.")

CHECKS = {
 "C15": dict(
  text="For 3-4 schemas (example.json, an x-rust-type document, depth-2 representatives) every option assignment expressible in each front-end with <=1 (quick) / <=2 (thorough, plus CLI triples) features on x builder off/on: derives (incl. a path), map types, unknown-crate policies, crate versions incl. names with digits/hyphens/underscores, *, !, renames; macro-only: patch, replace with every subset of the three impls through the `: ?Display + Default` syntax, convert. The builder items come from the adapter; the real cargo-typify binary built from /repo is run on each; the real import_types! macro is expanded by rustc next to the builder's tokens. Items must be equal token for token. CLI output-path rules and 'nothing written on failure' are run; every crate-specifier string of <=3/4 tokens over a 12-token alphabet is judged against a reference grammar.",
  design="DESIGN.md 4/C15", technique="bounded exhaustive option enumeration across three real front-ends; token-for-token differential comparison of syn-parsed items",
  note="Items are compared as syn-parsed token text with string literals compared by value and rustfmt's trailing commas / module_path!() text normalised. Macro expansion uses rustc 1.80.1 -Zunpretty=expanded (RUSTC_BOOTSTRAP=1). " + COMMON_NOTE),
 "C04": dict(
  text="Exhaustive grammar of serde-derivable Rust definitions instead of random universes: field types (6 scalars; Option/Vec/[_;2]/Box/BTreeMap/tuple of scalars; references to a second type), containers (named struct, tuple/newtype/unit struct, enums under all four taggings with every multiset of <=3 variant kinds), attribute features (rename_all x3, container/field/variant rename, default, deny_unknown_fields, skip_serializing_if) with <=k deviations, fixed-length-array variants in both orders, two-type universes for every outer x inner kind. The real schemars derives the schemas; the real typify-impl generates T' by both ingestion routes; compiled T' deserialises every sample value (full product of 2 values per field type) and the original crate reads back what T' wrote and compares with the original value.",
  design="DESIGN.md 4/C04", technique="exhaustive grammar enumeration; end-to-end execution Rust -> schemars -> typify -> rustc -> serde on every sample value; differential oracle against the original type",
  note="Generics, lifetimes, flatten, with, remote derive, >3 variants and nesting depth >2 are outside the grammar; schemars 0.8.22 default settings. Samples the original type cannot round-trip itself are excluded (counted). " + COMMON_NOTE),
 "C12": dict(
  text="Every document of the depth-2 space, of C07's recursion graphs and of a 'diamond' family (a definition outside a cycle reaching it through two children) is converted by the real parser + typify-impl from every key-order variant of its text (all permutations of the keys of every object with <=4 keys, rotations and reversal otherwise, at <=1 (quick) / <=2 (thorough) object nodes at a time) and three whitespace styles; to_stream() is called twice around an iter_types() walk; and the conversion is repeated in fresh processes under an LD_PRELOAD getrandom interposer for hash seeds 0..7 / 0..31. Oracle: byte-identical tokens.",
  design="DESIGN.md 4/C12", technique="bounded exhaustive enumeration of input encodings on the implementation; enumerated hash seeds in fresh processes via getrandom interposition (seed leg not exhaustive, reported separately)",
  note="The key-order/whitespace legs are exhaustive within the bound; the hash-order leg enumerates seeds (not the 2^128 key space) and is excluded from the exhaustive claim; an audit of every Hash(Map|Set) site in non-test code is written to the evidence. " + COMMON_NOTE),
 "C14": dict(
  text="Use-site matrix: a target definition (struct / string enum / constrained string newtype) used as required and optional member, Vec item, map value, tuple slot, newtype- and struct-variant payload, nullable union, alias and allOf member, next to independent definitions with map-typed members and inline conversion schemas with different annotations; all assignments of 8 settings features (replace, convert with/without annotations, patch rename+derive, global derive, BTreeMap, custom VMap, builder) with <=k on (k=2 quick, 3 thorough). Syntactic obligations are checked on the syn-parsed output of the real typify-impl; acceptance/round-trip vectors of unaffected types on compiled code are compared with those under default settings.",
  design="DESIGN.md 4/C14", technique="bounded exhaustive settings enumeration on the implementation; structural scan + differential behaviour on compiled generated code",
  note="Replacement/conversion/map targets live in verif_support::ext and meet exactly the documented requirements. " + COMMON_NOTE),
 "C17": dict(
  text="Bounded exhaustive enumeration of the depth-2 space (thorough: + pairs) x settings {type_mod none/'types', builder, map type}, plus replacement/conversion targets declared with every subset of {FromStr, Display, Default}; for every type the real Type API reports (name, ident, details, has_impl x3, builder) the facts are compared with a syn scan of the same output (properties == fields incl. required flag and type, variants == variants, newtype inner == field, builder() <=> builder item, iter_types() == emitted items, uses_* flags vs crate paths in the tokens) and turned into compiled assertions placed outside the module named by type_mod.",
  design="DESIGN.md 4/C17", technique="bounded exhaustive enumeration; API-vs-parsed-output comparison and compiled assertions generated from the API's own answers",
  note="has_impl(Default) is not queried on types that reach themselves through newtype/Box/tuple/array edges (documented unbounded recursion in has_impl). " + COMMON_NOTE),
 "C18": dict(
  text="Exhaustive operation sequences on compiled code: for every struct of a menu (1..3 members; member type x state {required, optional, schema default}) with the builder enabled, every subset of setters x every value choice (two convertible values built through from_value::<FieldTy>, one inconvertible raw String where the field type has a fallible TryFrom<String>) followed by try_into(), plus struct -> builder -> struct for every buildable value; Ok <=> all members without default set and all conversions ok, the error names the member, the built value equals from_value of the same object, the round trip is the identity.",
  design="DESIGN.md 4/C18", technique="exhaustive operation-sequence enumeration executed on compiled generated code against a reference predicate and a differential (builder vs Deserialize) oracle",
  note="Structs with more than 3 members and values outside the per-type sample sets are not covered. " + COMMON_NOTE),
 "C09": dict(
  text="Exhaustive enumeration of allOf compositions: every ordered pair of a 21-fragment menu (as definition and as member) and every ordered triple of a 10-fragment sub-menu, i.e. every permutation of every unordered pair/triple; each is converted by the real typify-impl, compiled and run on the instance universe of the conjunction; (i) candidates valid under every subschema must be accepted (jsonschema oracle), (ii) acceptance and round-trip vectors must be equal across all permutations of one multiset (differential, no validator), (iii) an order that is rejected or uninhabited next to an inhabited permutation is a violation.",
  design="DESIGN.md 4/C09", technique="exhaustive enumeration of permutations executed on compiled generated code; differential oracle across permutations + jsonschema intersection oracle",
  note="4+ subschemas, numeric intersections and allOf inside not are outside the bound; fragments hitting merge's documented unimplemented!() are not in the menu. " + COMMON_NOTE),
 "C01": dict(
  text="Bounded exhaustive enumeration of (schema document, settings, ingestion batching): the depth-2 space (leaf x composite x context menus; thorough: + pairs + depth-3) under builder off/on (thorough: the 12-element product builder x 3 map types x derives), a name-collision family (prelude names and every name typify invents, as definition keys and member names), C06's default family, n=1 recursion graphs and three batchings of every document; each is ingested by the real typify-impl, rendered, parsed by syn and type-checked by rustc (cargo check) with per-case error attribution. Ingest Ok => renders, parses, zero rustc errors; and every member of the families must be accepted.",
  design="DESIGN.md 4/C01", technique="bounded exhaustive enumeration of schemas x settings x ingestion histories on the implementation; rustc type-check of every generated module",
  note="Type-check (cargo check) against serde, serde_json, chrono, uuid, regress at the repo's locked versions with rustc 1.80.1; warnings ignored. Depth>=4 compositions and >2 simultaneous collisions are outside the bound. " + COMMON_NOTE),
 "C06": dict(
  text="Exhaustive table: one type kind per arm of the default validation/rendering code (38 kinds) x a candidate set of valid (intrinsic and non-intrinsic) and invalid defaults x position {member, named definition, add_type_with_name} x builder {off,on}; each case is ingested by the real typify-impl, compiled, and the realised default is observed at run time through serde (missing member), the builder and the Default impl; validity of every candidate is decided by the jsonschema oracle.",
  design="DESIGN.md 4/C06", technique="exhaustive kind x default x position table executed on the implementation and on compiled generated code, jsonschema validity oracle",
  note="Invalid defaults of native types (uuid, date) are not demanded to fail (validation documented as deferred). Defaults nested deeper than 2 are outside the bound. " + COMMON_NOTE),
 "C19": dict(
  text="Bounded exhaustive enumeration of the depth-2 space (thorough: + pairs) x settings {builder, extra derive, custom map}; every struct/enum item of every generated module gets one compiled bound assertion in its own file (Debug + Clone + Serialize + DeserializeOwned + From<&T>, plus Copy/Eq/Ord/Hash/PartialOrd/PartialEq for data-less enums and Eq/Ord/Hash for string newtypes); a syn scan checks that every item, struct member and unconstrained-newtype field is pub; the negative half (no underivable trait) is the rustc verdict on the module.",
  design="DESIGN.md 4/C19", technique="bounded exhaustive enumeration; compiled trait-bound assertions per generated type + structural visibility scan",
  note="Module compile errors other than E0204/E0277/E0369 are left to C01. " + COMMON_NOTE),
 "C08": dict(
  text="Exhaustive enumeration of every string of length <=3 (quick) / <=4 (thorough) over a 13-character alphabet (XID_Start ASCII and non-ASCII, XID_Continue-only, '_', '-', apostrophe, space, symbols, case-mapping changers), the Rust keyword list in three casings and sanitize's special cases, each as member name, enum value and definition key, then every pair the implementation itself maps to one identifier (collision classes discovered through the adapter); each ingested by the real typify-impl and judged on the parsed output (identifiers distinct per scope, effective serde wire name == JSON name) and, for a covering subset, compiled and round-tripped under the exact name.",
  design="DESIGN.md 4/C08", technique="bounded exhaustive string enumeration on the implementation, collision classes discovered from the implementation, structural scan + compiled wire round trip",
  note="A failing add is accepted by the statement and only counted. Strings longer than 4 outside the keyword list are not covered (the quantifier's random longer strings are not sampled). " + COMMON_NOTE),
 "C07": dict(
  text="Exhaustive enumeration of reference multigraphs over n definitions (n=1 and n=2 complete over 8 struct edge kinds, alias nodes and 4 enum payload kinds, n=3 over a reduced alphabet, each also with a definition sharing Option/tuple nodes with the cycle); every graph is ingested by the real typify-impl and the containment graph read from the public Type API is searched for a cycle without heap indirection, and for a Box in graphs without by-value cycle; graphs with a by-value cycle are compiled by rustc and recursive values round-tripped.",
  design="DESIGN.md 4/C07", technique="exhaustive small-scope graph enumeration on the implementation + independent cycle search; compile/run tier on generated code",
  note="n>=4, more than two out-edges per node and cycles through allOf are outside the bound; the quantifier's random n<=8 part is not sampled. " + COMMON_NOTE),
 "C16": dict(
  text="Explicit-state search: breadth-first over all histories of add_ref_types / add_root_schema / add_type_with_name calls (12-op alphabet with repeats, shared sub-schemas, hints that do and do not coincide with existing names) to depth 3 (quick) / 4 and 5 (thorough); each history is replayed on a fresh real TypeSpace with a snapshot after every call; invariants I1 (ids stable), I2 (repeat is idempotent), I3 (no duplicate items, parses), I4 (independent calls commute, split batches agree) are evaluated on every transition.",
  design="DESIGN.md 4/C16", technique="explicit-state breadth-first search over API-call histories replayed on the real implementation, invariants on every state, differential commutation oracle",
  note="States are canonicalised (sorted items + live type table) only for counting; every history is executed. Histories are not extended past an Err. " + COMMON_NOTE),
 "C11": dict(
  text="Bounded exhaustive enumeration of schemas yielding string-convertible types (every string-ish leaf as definition/alias, and every ordered pair and triple of an alternative menu as an untagged string enum, i.e. all order permutations); every string of the instance universe is sent through Deserialize and through each of FromStr / TryFrom<&str> / TryFrom<&String> / TryFrom<String> / Display that the emitted code implements, on the compiled type; routes must agree in success and value, Display must equal the serialized string.",
  design="DESIGN.md 4/C11", technique="bounded exhaustive enumeration of schemas x probe strings on compiled generated code, differential oracle between conversion routes",
  note="Only conversions the emitted code implements are probed (found by a syn scan of impl headers). " + COMMON_NOTE),
 "C13": dict(
  text="Exhaustive decision table: crate configuration {absent,*,!,version} x unknown-crate policy x 62 (requirement, version) pairs on both sides of every semver operator x rename x type parameters x use site, plus 12 malformed-extension variants x configuration x policy; each cell converted by the real typify-impl and compared with a reference decision function written from the README.",
  design="DESIGN.md 4/C13", technique="exhaustive decision-table enumeration on the implementation against a reference decision function",
  note="The expected 'satisfies' column is hand-written from Cargo's documented semantics and cross-checked against the semver crate (disagreement = machinery error). " + COMMON_NOTE),
 "C02": dict(
  text="Bounded exhaustive enumeration of faithful-fragment schemas (leaf menu x composite menu x context menu: depth-2, depth-3 and pair products) each converted by the real typify-impl, compiled by rustc and run on every element of its compositional instance universe (every member subset, boundary lengths in 1/2/4-byte scalars, every other JSON type, cross-branch mixtures); every instance the independent Draft-7 oracle calls valid must deserialize.",
  design="DESIGN.md 4/C02", technique="bounded exhaustive enumeration of schemas x instance universes, executed on compiled generated code, judged by an independent JSON Schema validator",
  note="Instances outside the universe and schemas deeper than depth 3 are not covered. Cases typify rejects or that do not compile are counted and left to C01. " + COMMON_NOTE),
 "C03": dict(
  text="Same enumerated space and pipeline run as C02; every oracle-valid instance containing only declared members is deserialized, serialized and round-tripped again on the compiled type; the result must be oracle-valid, contain the instance's data (prune containment), add only default-valued members and be a fixed point.",
  design="DESIGN.md 4/C03", technique="bounded exhaustive enumeration of schemas x valid instances, round trip executed on compiled generated code, reference containment oracle",
  note="As C02. Intrinsic defaults are null, [], {}, false, 0, \"\". " + COMMON_NOTE),
 "C05": dict(
  text="Bounded exhaustive enumeration of schemas built only from enforced constructs x contexts; the instance universe contains every single-constraint mutant of every valid instance; every oracle-invalid element must be rejected by the compiled type, FromStr/TryFrom must agree with Deserialize on every probe string, and a syn scan must find no public field or From<inner> on constrained newtypes.",
  design="DESIGN.md 4/C05", technique="bounded exhaustive mutant enumeration executed on compiled generated code + structural scan of the emitted items",
  note="Alphabet rules (DESIGN 11): never null at an Option position, never an array for an object, never omission of a required nullable member. " + COMMON_NOTE),
 "C10": dict(
  text="Bounded exhaustive enumeration of integer schemas over the boundary lattice (every integer type's MIN/MAX, each +-1, small and large values) x 12 formats x <=2 of the 4 bound keywords x multipleOf, plus default and string/float format tables; every schema is converted by the real typify-impl and the chosen builtin (read through the public Type API) is compared, by exact integer arithmetic, against every lattice probe the schema admits.",
  design="DESIGN.md 4/C10", technique="bounded exhaustive input enumeration on the implementation + exact-arithmetic reference oracle",
  note="schemars parses numeric keywords as f64: the oracle judges the numbers typify was given (schema echoed back through schemars). Without a recognised format probes are clipped to the i64 range (the statement's accepted fallback). " + COMMON_NOTE),
}

# what the systematic families added to each check's space (DESIGN.md section 12), appended to the level text
ADD = {
 "C01": " The depth-2 space includes the systematic families (tagged enums: tagging x ordered variant kinds x leaf; struct members: type x state; unions: {oneOf, anyOf} x ordered operand pairs; allOf refinements; array / tuple forms; string constraints; lifted member-level allOf; near-twin unnamed types; one shape per arm of convert_schema_object) with a `supported fragment` flag: outside it typify may decline a schema, inside it rejection is a violation. Later dimensions: names that meet without two alike keys (root title, invented member / item / variant names, own-title members) against a key; compound member types whose elements are named types with defaults under the builder; struct variants with defaults after variants of other kinds; native-named definitions; float-spelled integer defaults.",
 "C02": " The space includes the systematic families listed under C01 (every cell whose schema is in the faithful fragment).",
 "C03": " Same families as C02; member-wise unions of allOf branches count as declared-only instances.",
 "C05": " Cells of the systematic families built only from the constraints the statement lists (bounded non-fixed arrays, integer bounds, untyped enums and `format` on enums are not 'enforced constructs'); plus a targeted 'delete a required non-nullable member' mutator for 22 member types (incl. sets, free-form values, $ref sets) in struct and struct-variant position. Also: tags written as const, type lists that leave one JSON type out, tuple positions with different constraints, refinements of bases that carry bounds of their own.",
 "C06": " Default candidates are the hand-listed ones plus candidates derived from each kind's instance universe (valid and invalid by the oracle); kinds for adjacent / untagged / tuple-variant enums, deny lists, patterns; defaults on a recursive reference. Positions: struct member, member of a struct variant that follows unit / newtype variants, definition, add_type_with_name. Further kinds: constrained map keys, closed tagged enums, multi-byte strings under length bounds, u64 values beyond i64::MAX in nested positions, float-spelled integers (rejection allowed).",
 "C07": " Node kinds also include allow-listed objects (constrained newtype around a struct), internally / adjacently tagged and untagged enums and non-exclusive anyOf (struct of flattened Options). Also: definitions that are themselves tuples / fixed arrays of another definition, two back edges out of one node, and every graph with a map edge under three further map types.",
 "C08": " Every name is also used as a required-only member, in mixed declared / required-only pairs, next to a flattened additional-properties member, and as externally / internally tagged variant name. Also variant payload kinds (1-tuple, 2-tuple, struct, adjacent content), alias-like definitions (named through the newtype wrapper), and variants carrying another single-valued property.",
 "C09": " Fragment menu of 42 (type lists, formats, const, not-required forms, anyOf, contains, $ref to a oneOf, min/maxProperties); lifted family: two object branches constraining one optional property, ordered pairs of 20 member schemas; ordered triples also in the quick tier. Also string-format and integer-format pairs in every order, operands that are allOf groups (diamonds), three-branch oneOf operands, explicit-true additionalProperties / additionalItems.",
 "C10": " Defaults inside the admitted range must be accepted; near-miss format names (width suffix, case, plural, separator) for number / integer / string formats must behave like no format. multipleOf {1,2} in the quick tier; the integer as one alternative of a multi-type list.",
 "C11": " Includes the string-constraint, string-refinement and string-union families.",
 "C13": " Includes the family 'one external path used twice in one type space with every ordered pair of parameter forms' (inline/inline, definition/inline, Vec/inline). Also prerelease / build-metadata versions, same-crate extensions with other requirements in one document, a definition name that is a suffix of the external type's name (the type named after the definition must exist), paths that merely begin with the crate identifier.",
 "C14": " Maps and conversion schemas also in nested positions (Vec of maps, map of maps, nullable map, map value, enum variant payloads, constrained-key free-value maps), patches on inline (non-definition) types, and a generic differential: every member type equals its default-settings type under the substitutions the settings imply. Second-call variants (a later add_ref_types holding the replaced / patched definition again) and an odd-key family (replace / patch on definitions whose keys start with a digit, are keywords or carry punctuation).",
 "C16": " Alphabet of 18 ops incl. a self-referential root, cross-batch references and a {$ref, default} member whose target is converted later / earlier; invariant I5: a root addition's id names that root and '#' refers to it; split / listing-order equivalences. Later ops: one batch holding a definition and the name an earlier definition of it invents (R14), a recursive definition with a non-cyclic referrer whole vs split (R7*), unnamed types (T10/T11), one schema under two hints (T12/T13), members using the shared default helpers (R8/R9/R89); I2 also compares the returned type id and the size of the type table.",
 "C17": " Space as C01's depth-2 space incl. the systematic families.",
 "C18": " 29 member types incl. sets, one-tuples, fixed arrays, keyed maps, inline structs / enums; self-referential structs (self / nullable self / Vec<self> x state x earlier-sorting referrer).",
 "C19": " Space as C01's depth-2 space incl. the systematic families; any rustc error arising inside the expansion of a derive counts as a missing promised trait.",
 "C04": " Field types also char, i8..i64, f32, usize, NonZeroU32, BTreeSet; custom default functions (#[serde(default = \"f\")], field type x {zero-like, non-zero} value).",
 "C12": " Documents include shapes with several internal-tag candidates.",
}

NOT_YET = "check under construction in this round; no verdict is claimed for it yet"

def main():
    hooks_commits = []
    m = {
     "version": 1,
     "setup_cmd": "./setup.sh",
     "hooks": {"guard": "none - no hook or instrumentation was added to /repo (no cfg flag, no cargo feature); every check drives the public API of the unmodified crates",
               "enable": "nothing to enable: checks build /repo's working tree as it is (engine/adapter links typify-impl by path; C15 builds cargo-typify and expands the real macro). C12's hash-order leg controls std's RandomState from outside the repository through an LD_PRELOAD getrandom interposer (engine/hashseed/gr.c)",
               "baseline_off_cmd": "cd /repo && cargo test --workspace --no-fail-fast --offline",
               "source_commits": hooks_commits, "add_only": True},
     "engines": [
      {"name": "tvadapter", "path": "engine/adapter", "serves_properties": sorted(CHECKS), "kind_free_text": "Rust binary linking typify-impl from /repo's working tree: public API over JSON lines, syn structural scan; no judgement"},
      {"name": "tv", "path": "tv", "serves_properties": sorted(CHECKS), "kind_free_text": "python explorer: bounded exhaustive enumerators, batch rustc compile/run of generated code, jsonschema oracle, judges, evidence"},
     ],
     "checks": [],
     "not_applicable": [],
     "notes": "Every check: exit 0 held / exit 1 VIOLATION / exit 2 machinery failure (never a verdict). Known findings: known-findings.json.",
    }
    for pid in ALL:
        if pid in CHECKS:
            c = CHECKS[pid]
            m["checks"].append({
             "property_id": pid, "quick_cmd": "./check %s --tier quick" % pid, "thorough_cmd": "./check %s --tier thorough" % pid,
             "evidence_file": "evidence/%s.json" % pid, "replay_cmd_template": "./check %s --replay {path}" % pid,
             "engine": "tv", "level_claimed": {"category": "model_checking", "text": c["text"] + ADD.get(pid, ""), "design_ref": c["design"]},
             "level_note": c["note"], "technique": c["technique"]})
        else:
            m["not_applicable"].append({"property_id": pid, "reason": NOT_YET})
    with open(os.path.join(HERE, "MANIFEST.json"), "w") as f:
        json.dump(m, f, indent=1)
        f.write("\n")

if __name__ == "__main__":
    main()
