#!/bin/bash
# apply a seeded patch to /repo, run the given check(s), undo it straight afterwards.
# usage: tools/try_seed.sh <tag> <Cxx> [tier]
tag=$1; prop=$2; tier=${3:-quick}
cd /verif
git -C /repo diff --quiet || { echo "/repo not clean"; exit 3; }
p=/verif/seeded/$tag/patch.diff; [ -f /verif/seeded/$tag/patch.rebased.diff ] && p=/verif/seeded/$tag/patch.rebased.diff; git -C /repo apply $p || { echo "patch does not apply"; exit 3; }
cp evidence/$prop.json /tmp/evidence_$prop.bak 2>/dev/null
./check $prop --tier $tier > /tmp/try_$tag_$prop.out 2>&1; rc=$?
cp evidence/$prop.json /tmp/evidence_${prop}_with_$tag.json 2>/dev/null; cp /tmp/evidence_$prop.bak evidence/$prop.json 2>/dev/null   # evidence of a seeded tree is never kept
git -C /repo checkout -- .
grep -c '^VIOLATION' /tmp/try_$tag_$prop.out | sed "s/^/violations: /"
grep '^VIOLATION' /tmp/try_$tag_$prop.out | head -3
tail -1 /tmp/try_$tag_$prop.out
echo "exit=$rc"
