// synscan: structural dump of a generated token stream (parsed as syn::File).

use quote::ToTokens;
use serde_json::{json, Value};
use syn::{Attribute, Fields, Item, Meta, Visibility};

fn tts<T: ToTokens>(t: &T) -> String {
    t.to_token_stream().to_string()
}

fn vis(v: &Visibility) -> &'static str {
    match v {
        Visibility::Public(_) => "pub",
        Visibility::Restricted(_) => "restricted",
        Visibility::Inherited => "private",
    }
}

// returns (derives, serde args (top-level comma separated, as strings), other attr paths, docs)
fn attrs(attrs: &[Attribute]) -> Value {
    let mut derives = Vec::new();
    let mut serde = Vec::new();
    let mut other = Vec::new();
    let mut docs = Vec::new();
    for a in attrs {
        let p = tts(a.path());
        if p == "derive" {
            if let Meta::List(l) = &a.meta {
                let parsed = l.parse_args_with(
                    syn::punctuated::Punctuated::<syn::Path, syn::Token![,]>::parse_terminated,
                );
                if let Ok(ps) = parsed {
                    for d in ps {
                        derives.push(tts(&d).replace(' ', ""));
                    }
                }
            }
        } else if p == "serde" {
            if let Meta::List(l) = &a.meta {
                let parsed = l.parse_args_with(
                    syn::punctuated::Punctuated::<Meta, syn::Token![,]>::parse_terminated,
                );
                if let Ok(ms) = parsed {
                    for m in ms {
                        match &m {
                            Meta::Path(p) => serde.push(json!({"key": tts(p), "value": null})),
                            Meta::NameValue(nv) => {
                                let val = match &nv.value {
                                    syn::Expr::Lit(syn::ExprLit {
                                        lit: syn::Lit::Str(s),
                                        ..
                                    }) => json!(s.value()),
                                    e => json!({"expr": tts(e)}),
                                };
                                serde.push(json!({"key": tts(&nv.path), "value": val}))
                            }
                            Meta::List(l) => {
                                serde.push(json!({"key": tts(&l.path), "value": {"list": l.tokens.to_string()}}))
                            }
                        }
                    }
                }
            }
        } else if p == "doc" {
            if let Meta::NameValue(nv) = &a.meta {
                if let syn::Expr::Lit(syn::ExprLit {
                    lit: syn::Lit::Str(s),
                    ..
                }) = &nv.value
                {
                    docs.push(s.value());
                }
            }
        } else {
            other.push(tts(&a.meta));
        }
    }
    json!({"derives": derives, "serde": serde, "other": other, "docs": docs})
}

fn fields(f: &Fields) -> Value {
    match f {
        Fields::Unit => json!({"style": "unit", "fields": []}),
        Fields::Named(n) => json!({"style": "named", "fields": n.named.iter().map(|f| {
            json!({"name": f.ident.as_ref().map(|i| i.to_string()), "vis": vis(&f.vis), "ty": tts(&f.ty), "attrs": attrs(&f.attrs)})
        }).collect::<Vec<_>>()}),
        Fields::Unnamed(u) => json!({"style": "tuple", "fields": u.unnamed.iter().map(|f| {
            json!({"name": null, "vis": vis(&f.vis), "ty": tts(&f.ty), "attrs": attrs(&f.attrs)})
        }).collect::<Vec<_>>()}),
    }
}

fn scan_items(path: &str, items: &[Item], out: &mut serde_json::Map<String, Value>) {
    let mut here = Vec::new();
    for it in items {
        match it {
            Item::Struct(s) => here.push(json!({
                "kind": "struct", "name": s.ident.to_string(), "vis": vis(&s.vis),
                "generics": tts(&s.generics), "attrs": attrs(&s.attrs), "body": fields(&s.fields)})),
            Item::Enum(e) => here.push(json!({
                "kind": "enum", "name": e.ident.to_string(), "vis": vis(&e.vis),
                "generics": tts(&e.generics), "attrs": attrs(&e.attrs),
                "variants": e.variants.iter().map(|v| json!({
                    "name": v.ident.to_string(), "attrs": attrs(&v.attrs), "body": fields(&v.fields),
                    "discriminant": v.discriminant.as_ref().map(|(_, e)| tts(e))})).collect::<Vec<_>>()})),
            Item::Impl(i) => {
                let fns: Vec<Value> = i
                    .items
                    .iter()
                    .filter_map(|ii| match ii {
                        syn::ImplItem::Fn(f) => Some(json!({
                            "name": f.sig.ident.to_string(), "vis": vis(&f.vis),
                            "inputs": f.sig.inputs.iter().map(|a| tts(a)).collect::<Vec<_>>(),
                            "output": match &f.sig.output { syn::ReturnType::Default => "()".to_string(), syn::ReturnType::Type(_, t) => tts(t) },
                            "body": tts(&f.block)})),
                        _ => None,
                    })
                    .collect();
                let tys: Vec<Value> = i
                    .items
                    .iter()
                    .filter_map(|ii| match ii {
                        syn::ImplItem::Type(t) => Some(json!({"name": t.ident.to_string(), "ty": tts(&t.ty)})),
                        _ => None,
                    })
                    .collect();
                here.push(json!({
                    "kind": "impl", "trait": i.trait_.as_ref().map(|(_, p, _)| tts(p)),
                    "self_ty": tts(&i.self_ty), "generics": tts(&i.generics), "fns": fns, "types": tys,
                    "attrs": attrs(&i.attrs)}))
            }
            Item::Fn(f) => here.push(json!({
                "kind": "fn", "name": f.sig.ident.to_string(), "vis": vis(&f.vis),
                "generics": tts(&f.sig.generics),
                "inputs": f.sig.inputs.iter().map(|a| tts(a)).collect::<Vec<_>>(),
                "output": match &f.sig.output { syn::ReturnType::Default => "()".to_string(), syn::ReturnType::Type(_, t) => tts(t) },
                "body": tts(&f.block)})),
            Item::Mod(m) => {
                here.push(json!({"kind": "mod", "name": m.ident.to_string(), "vis": vis(&m.vis)}));
                if let Some((_, items)) = &m.content {
                    let p = if path.is_empty() {
                        m.ident.to_string()
                    } else {
                        format!("{}::{}", path, m.ident)
                    };
                    scan_items(&p, items, out);
                }
            }
            Item::Const(c) => here.push(json!({"kind": "const", "name": c.ident.to_string(), "vis": vis(&c.vis)})),
            Item::Type(t) => here.push(json!({"kind": "type", "name": t.ident.to_string(), "vis": vis(&t.vis), "ty": tts(&t.ty)})),
            Item::Use(u) => here.push(json!({"kind": "use", "text": tts(u)})),
            other => here.push(json!({"kind": "other", "text": tts(other)})),
        }
    }
    // several `mod x {}` blocks with one path are merged
    let slot = out.entry(path.to_string()).or_insert_with(|| json!([]));
    slot.as_array_mut().unwrap().extend(here);
}

pub fn scan_file(f: &syn::File) -> Value {
    let mut out = serde_json::Map::new();
    scan_items("", &f.items, &mut out);
    json!({"mods": out})
}

// string literals are compared by value: r"x", r#"x"# and "x" are one token for our purposes
fn normalize(ts: proc_macro2::TokenStream) -> proc_macro2::TokenStream {
    use proc_macro2::{Group, Literal, TokenTree};
    ts.into_iter()
        .map(|tt| match tt {
            TokenTree::Group(g) => {
                let mut ng = Group::new(g.delimiter(), normalize(g.stream()));
                ng.set_span(g.span());
                TokenTree::Group(ng)
            }
            TokenTree::Literal(l) => {
                let text = l.to_string();
                if text.starts_with('r') || text.starts_with('"') {
                    if let Ok(ls) = syn::parse_str::<syn::LitStr>(&text) {
                        return TokenTree::Literal(Literal::string(&ls.value()));
                    }
                }
                TokenTree::Literal(l)
            }
            other => other,
        })
        .collect()
}

fn texts(path: &str, items: &[Item], out: &mut Vec<Value>) {
    for it in items {
        let (kind, name) = match it {
            Item::Struct(s) => ("struct", s.ident.to_string()),
            Item::Enum(e) => ("enum", e.ident.to_string()),
            Item::Impl(i) => (
                "impl",
                format!(
                    "{} for {}",
                    i.trait_
                        .as_ref()
                        .map(|(_, p, _)| tts(p))
                        .unwrap_or_else(|| "-".to_string()),
                    tts(&i.self_ty)
                ),
            ),
            Item::Fn(f) => ("fn", f.sig.ident.to_string()),
            Item::Mod(m) => {
                if let Some((_, items)) = &m.content {
                    let p = if path.is_empty() {
                        m.ident.to_string()
                    } else {
                        format!("{}::{}", path, m.ident)
                    };
                    texts(&p, items, out);
                }
                continue;
            }
            Item::Const(c) => ("const", c.ident.to_string()),
            Item::Type(t) => ("type", t.ident.to_string()),
            _ => ("other", String::new()),
        };
        out.push(json!([path, kind, name, normalize(it.to_token_stream()).to_string()]));
    }
}

// flat list of [module path, kind, name, token text] for every item (C16 canonical form, C15 comparison)
pub fn item_texts(f: &syn::File) -> Value {
    let mut out = Vec::new();
    texts("", &f.items, &mut out);
    json!(out)
}
