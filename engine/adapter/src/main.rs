// tvadapter: typify's public API over JSON lines. No judgement happens here; this binary is the
// binding between the python explorer and the implementation built from /repo's working tree.
//
// stdin : one job per line   {id, settings, ops:[Op], want:[str], locate:[str]}
// stdout: one answer per line (see DESIGN.md Appendix B)

use std::collections::{BTreeMap, BTreeSet};
use std::io::{BufRead, Write};
use std::panic::{catch_unwind, AssertUnwindSafe};

use quote::ToTokens;
use schemars::schema::{RootSchema, Schema, SchemaObject};
use serde_json::{json, Map, Value};
use typify_impl::{
    CrateVers, Type, TypeDetails, TypeEnumVariant, TypeId, TypeSpace, TypeSpaceImpl,
    TypeSpacePatch, TypeSpaceSettings, UnknownPolicy,
};

mod scan;

fn tid(n: u64) -> TypeId {
    // TypeId is an opaque newtype over u64; the public API offers no enumeration of ids, so the
    // adapter reconstructs them. A layout change turns into a build failure (size assert), i.e. a
    // machinery error, never a verdict.
    const _: () = assert!(std::mem::size_of::<TypeId>() == 8);
    unsafe { std::mem::transmute::<u64, TypeId>(n) }
}

fn idnum(id: &TypeId) -> u64 {
    let s = format!("{:?}", id);
    s.trim_start_matches("TypeId(")
        .trim_end_matches(')')
        .parse()
        .unwrap()
}

fn parse_impls(v: Option<&Value>) -> Vec<TypeSpaceImpl> {
    v.and_then(|v| v.as_array())
        .map(|a| {
            a.iter()
                .filter_map(|s| s.as_str())
                .filter_map(|s| s.parse::<TypeSpaceImpl>().ok())
                .collect()
        })
        .unwrap_or_default()
}

fn build_settings(v: &Value) -> Result<TypeSpaceSettings, String> {
    let mut s = TypeSpaceSettings::default();
    if let Some(b) = v.get("struct_builder").and_then(|b| b.as_bool()) {
        s.with_struct_builder(b);
    }
    if let Some(m) = v.get("type_mod").and_then(|b| b.as_str()) {
        s.with_type_mod(m);
    }
    if let Some(ds) = v.get("derives").and_then(|b| b.as_array()) {
        for d in ds {
            s.with_derive(d.as_str().unwrap_or_default().to_string());
        }
    }
    if let Some(m) = v.get("map_type").and_then(|b| b.as_str()) {
        s.with_map_type(m);
    }
    if let Some(p) = v.get("unknown_crates").and_then(|b| b.as_str()) {
        s.with_unknown_crates(match p {
            "generate" => UnknownPolicy::Generate,
            "allow" => UnknownPolicy::Allow,
            "deny" => UnknownPolicy::Deny,
            other => return Err(format!("bad unknown_crates {}", other)),
        });
    }
    if let Some(cs) = v.get("crates").and_then(|b| b.as_object()) {
        for (name, spec) in cs {
            let vers = spec.get("version").and_then(|x| x.as_str()).unwrap_or("*");
            // built from the semver crate directly, NOT through CrateVers::parse: the front-ends' parsing is what C15 compares against
            let vers = match vers {
                "*" => CrateVers::Any,
                "!" => CrateVers::Never,
                v => CrateVers::Version(semver::Version::parse(v).map_err(|e| format!("bad version {}: {}", v, e))?),
            };
            let rename = spec
                .get("rename")
                .and_then(|x| x.as_str())
                .map(|x| x.to_string());
            s.with_crate(name, vers, rename.as_ref());
        }
    }
    if let Some(ps) = v.get("patch").and_then(|b| b.as_object()) {
        for (name, spec) in ps {
            let mut p = TypeSpacePatch::default();
            if let Some(r) = spec.get("rename").and_then(|x| x.as_str()) {
                p.with_rename(r);
            }
            if let Some(ds) = spec.get("derives").and_then(|x| x.as_array()) {
                for d in ds {
                    p.with_derive(d.as_str().unwrap_or_default());
                }
            }
            s.with_patch(name, &p);
        }
    }
    if let Some(rs) = v.get("replace").and_then(|b| b.as_object()) {
        for (name, spec) in rs {
            let ty = spec.get("type").and_then(|x| x.as_str()).unwrap_or("");
            s.with_replacement(name, ty, parse_impls(spec.get("impls")).into_iter());
        }
    }
    if let Some(cs) = v.get("convert").and_then(|b| b.as_array()) {
        for spec in cs {
            let schema: SchemaObject =
                serde_json::from_value(spec.get("schema").cloned().unwrap_or(json!({})))
                    .map_err(|e| format!("bad convert schema: {}", e))?;
            let ty = spec.get("type").and_then(|x| x.as_str()).unwrap_or("");
            s.with_conversion(schema, ty, parse_impls(spec.get("impls")).into_iter());
        }
    }
    Ok(s)
}

fn panic_msg(e: Box<dyn std::any::Any + Send>) -> String {
    if let Some(s) = e.downcast_ref::<&str>() {
        s.to_string()
    } else if let Some(s) = e.downcast_ref::<String>() {
        s.clone()
    } else {
        "<non-string panic>".to_string()
    }
}

fn ts(t: proc_macro2::TokenStream) -> String {
    t.to_string()
}

// Can `start` reach itself through newtype / box / tuple / array edges? (guard for has_impl(Default),
// see DESIGN Appendix B)
fn default_query_cyclic(space: &TypeSpace, start: u64) -> bool {
    fn kids(space: &TypeSpace, n: u64) -> Vec<u64> {
        match space.get_type(&tid(n)) {
            Err(_) => vec![],
            Ok(t) => match t.details() {
                TypeDetails::Newtype(nt) => vec![idnum(&nt.inner())],
                TypeDetails::Box(i) => vec![idnum(&i)],
                TypeDetails::Array(i, _) => vec![idnum(&i)],
                TypeDetails::Tuple(it) => it.map(|i| idnum(&i)).collect(),
                _ => vec![],
            },
        }
    }
    let mut seen = BTreeSet::new();
    let mut stack = kids(space, start);
    while let Some(n) = stack.pop() {
        if n == start {
            return true;
        }
        if seen.insert(n) {
            stack.extend(kids(space, n));
        }
    }
    false
}

fn dump_type(space: &TypeSpace, n: u64, t: &Type) -> Value {
    let mut o = Map::new();
    o.insert("id".into(), json!(n));
    let wrap = |f: &dyn Fn() -> String| -> Value {
        match catch_unwind(AssertUnwindSafe(f)) {
            Ok(s) => json!(s),
            Err(e) => json!({"panic": panic_msg(e)}),
        }
    };
    o.insert("name".into(), wrap(&|| t.name()));
    o.insert("ident".into(), wrap(&|| ts(t.ident())));
    o.insert("param_ident".into(), wrap(&|| ts(t.parameter_ident())));
    o.insert("describe".into(), wrap(&|| t.describe()));
    let det = catch_unwind(AssertUnwindSafe(|| match t.details() {
        TypeDetails::Enum(e) => {
            let vs: Vec<Value> = e
                .variants_info()
                .map(|vi| {
                    let (k, d) = match vi.details {
                        TypeEnumVariant::Simple => ("simple", json!(null)),
                        TypeEnumVariant::Tuple(ids) => {
                            ("tuple", json!(ids.iter().map(idnum).collect::<Vec<_>>()))
                        }
                        TypeEnumVariant::Struct(ps) => (
                            "struct",
                            json!(ps
                                .iter()
                                .map(|(n, i)| json!([n, idnum(i)]))
                                .collect::<Vec<_>>()),
                        ),
                    };
                    json!({"name": vi.name, "kind": k, "data": d, "description": vi.description})
                })
                .collect();
            json!({"kind": "enum", "variants": vs})
        }
        TypeDetails::Struct(s) => {
            let ps: Vec<Value> = s
                .properties_info()
                .map(|p| {
                    json!({"name": p.name, "required": p.required, "type_id": idnum(&p.type_id),
                           "description": p.description})
                })
                .collect();
            let ps2: Vec<Value> = s
                .properties()
                .map(|(n, i)| json!([n, idnum(&i)]))
                .collect();
            json!({"kind": "struct", "props": ps, "props_short": ps2})
        }
        TypeDetails::Newtype(nt) => json!({"kind": "newtype", "inner": idnum(&nt.inner())}),
        TypeDetails::Option(i) => json!({"kind": "option", "child": idnum(&i)}),
        TypeDetails::Vec(i) => json!({"kind": "vec", "child": idnum(&i)}),
        TypeDetails::Set(i) => json!({"kind": "set", "child": idnum(&i)}),
        TypeDetails::Box(i) => json!({"kind": "box", "child": idnum(&i)}),
        TypeDetails::Map(k, v) => json!({"kind": "map", "key": idnum(&k), "value": idnum(&v)}),
        TypeDetails::Tuple(it) => {
            json!({"kind": "tuple", "children": it.map(|i| idnum(&i)).collect::<Vec<_>>()})
        }
        TypeDetails::Array(i, l) => json!({"kind": "array", "child": idnum(&i), "len": l}),
        TypeDetails::Builtin(s) => json!({"kind": "builtin", "builtin": s}),
        TypeDetails::Unit => json!({"kind": "unit"}),
        TypeDetails::String => json!({"kind": "string"}),
    }));
    match det {
        Ok(Value::Object(m)) => {
            for (k, v) in m {
                o.insert(k, v);
            }
        }
        Ok(_) => {}
        Err(e) => {
            o.insert("kind".into(), json!("panic"));
            o.insert("details_panic".into(), json!(panic_msg(e)));
        }
    }
    let cyc = default_query_cyclic(space, n);
    let mut hi = Map::new();
    for (nm, im) in [
        ("FromStr", TypeSpaceImpl::FromStr),
        ("Display", TypeSpaceImpl::Display),
        ("Default", TypeSpaceImpl::Default),
    ] {
        if cyc {
            hi.insert(nm.into(), json!("skipped-cyclic"));
        } else {
            match catch_unwind(AssertUnwindSafe(|| t.has_impl(im))) {
                Ok(b) => hi.insert(nm.into(), json!(b)),
                Err(e) => hi.insert(nm.into(), json!({"panic": panic_msg(e)})),
            };
        }
    }
    o.insert("has_impl".into(), Value::Object(hi));
    o.insert(
        "builder".into(),
        match catch_unwind(AssertUnwindSafe(|| t.builder().map(ts))) {
            Ok(b) => json!(b),
            Err(e) => json!({"panic": panic_msg(e)}),
        },
    );
    Value::Object(o)
}

fn api_dump(space: &TypeSpace) -> Value {
    let count = space.iter_types().count();
    let mut out = Vec::new();
    let mut n = 0u64;
    let mut found = 0usize;
    while found < count && n < 200_000 {
        if let Ok(t) = space.get_type(&tid(n)) {
            found += 1;
            out.push(dump_type(space, n, &t));
        }
        n += 1;
    }
    // iter_types order must be the id order; dump the name sequence so a judge can compare
    let iter_names: Vec<String> = space
        .iter_types()
        .map(|t| catch_unwind(AssertUnwindSafe(|| t.name())).unwrap_or_else(|_| "<panic>".into()))
        .collect();
    json!({"types": out, "iter_names": iter_names, "complete": found == count})
}

fn render(space: &TypeSpace) -> Result<String, String> {
    catch_unwind(AssertUnwindSafe(|| space.to_stream().to_string())).map_err(panic_msg)
}

fn wants(job: &Value, w: &str) -> bool {
    job.get("want")
        .and_then(|x| x.as_array())
        .map(|a| a.iter().any(|x| x.as_str() == Some(w)))
        .unwrap_or(false)
}

fn snapshot(space: &TypeSpace) -> Value {
    let tokens = render(space);
    let (status, tokens, items) = match tokens {
        Ok(t) => {
            let items = match syn::parse_str::<syn::File>(&t) {
                Ok(f) => scan::item_texts(&f),
                Err(_) => json!(null),
            };
            ("ok", json!(t), items)
        }
        Err(m) => ("panic", json!(m), json!(null)),
    };
    json!({"render": status, "tokens": tokens, "items": items, "api": api_dump(space)})
}

fn fixed_hash(s: &str) -> String {
    // DefaultHasher::new() uses fixed keys: deterministic across processes
    use std::hash::{Hash, Hasher};
    let mut h = std::collections::hash_map::DefaultHasher::new();
    s.hash(&mut h);
    format!("{:016x}", h.finish())
}

// compact per-step snapshot for history exploration (C16): item list with text hashes, type table
fn snapshot_compact(space: &TypeSpace) -> Value {
    let tokens = render(space);
    let (status, syn_ok, items) = match tokens {
        Ok(t) => match syn::parse_str::<syn::File>(&t) {
            Ok(f) => {
                let its = scan::item_texts(&f);
                let its: Vec<Value> = its
                    .as_array()
                    .unwrap()
                    .iter()
                    .map(|it| json!([it[0], it[1], it[2], fixed_hash(it[3].as_str().unwrap_or(""))]))
                    .collect();
                ("ok", true, json!(its))
            }
            Err(_) => ("ok", false, json!(null)),
        },
        Err(m) => ("panic", false, json!(m)),
    };
    let api = api_dump(space);
    let types: Vec<Value> = api["types"]
        .as_array()
        .unwrap()
        .iter()
        .map(|t| {
            let mut t = t.clone();
            if let Some(o) = t.as_object_mut() {
                o.remove("describe");
                o.remove("param_ident");
                o.remove("props_short");
            }
            t
        })
        .collect();
    json!({"render": status, "syn_ok": syn_ok, "items": items, "types": types})
}

fn run_job(job: &Value) -> Value {
    let mut ans = Map::new();
    ans.insert("id".into(), job.get("id").cloned().unwrap_or(json!(null)));
    let settings = match build_settings(job.get("settings").unwrap_or(&json!({}))) {
        Ok(s) => s,
        Err(e) => {
            ans.insert("settings_error".into(), json!(e));
            return Value::Object(ans);
        }
    };
    let settings = match catch_unwind(AssertUnwindSafe(|| TypeSpace::new(&settings))) {
        Ok(s) => s,
        Err(e) => {
            ans.insert("settings_error".into(), json!(panic_msg(e)));
            return Value::Object(ans);
        }
    };
    let mut space = settings;
    let mut ops_out = Vec::new();
    let want_snap = wants(job, "snapshots");
    let want_snapc = wants(job, "snapshots_compact");
    let empty = vec![];
    let ops = job.get("ops").and_then(|x| x.as_array()).unwrap_or(&empty);
    let mut dead = false;
    for op in ops {
        if dead {
            ops_out.push(json!({"status": "skipped"}));
            continue;
        }
        let res: Result<Result<Option<u64>, String>, String> =
            catch_unwind(AssertUnwindSafe(|| -> Result<Option<u64>, String> {
                if let Some(doc) = op.get("root") {
                    let root: RootSchema = serde_json::from_value(doc.clone())
                        .map_err(|e| format!("PARSE: {}", e))?;
                    space
                        .add_root_schema(root)
                        .map(|o| o.map(|i| idnum(&i)))
                        .map_err(|e| e.to_string())
                } else if let Some(doc_text) = op.get("root_text").and_then(|x| x.as_str()) {
                    let root: RootSchema =
                        serde_json::from_str(doc_text).map_err(|e| format!("PARSE: {}", e))?;
                    space
                        .add_root_schema(root)
                        .map(|o| o.map(|i| idnum(&i)))
                        .map_err(|e| e.to_string())
                } else if let Some(refs) = op.get("refs") {
                    // either an object (sorted order) or a list of [name, schema] pairs (given order)
                    let mut defs: Vec<(String, Schema)> = Vec::new();
                    if let Some(o) = refs.as_object() {
                        for (k, v) in o {
                            let s: Schema = serde_json::from_value(v.clone())
                                .map_err(|e| format!("PARSE: {}", e))?;
                            defs.push((k.clone(), s));
                        }
                    } else if let Some(a) = refs.as_array() {
                        for kv in a {
                            let k = kv[0].as_str().unwrap_or_default().to_string();
                            let s: Schema = serde_json::from_value(kv[1].clone())
                                .map_err(|e| format!("PARSE: {}", e))?;
                            defs.push((k, s));
                        }
                    }
                    space
                        .add_ref_types(defs)
                        .map(|_| None)
                        .map_err(|e| e.to_string())
                } else if let Some(sch) = op.get("type") {
                    let s: Schema = serde_json::from_value(sch.clone())
                        .map_err(|e| format!("PARSE: {}", e))?;
                    let hint = op
                        .get("hint")
                        .and_then(|h| h.as_str())
                        .map(|h| h.to_string());
                    let r = if op.get("plain").and_then(|b| b.as_bool()) == Some(true) {
                        space.add_type(&s)
                    } else {
                        space.add_type_with_name(&s, hint)
                    };
                    r.map(|i| Some(idnum(&i))).map_err(|e| e.to_string())
                } else {
                    Err("PARSE: unknown op".to_string())
                }
            }))
            .map_err(panic_msg);
        let mut o = match res {
            Ok(Ok(id)) => json!({"status": "ok", "type_id": id}),
            Ok(Err(m)) => {
                dead = true;
                json!({"status": "err", "msg": m})
            }
            Err(m) => {
                dead = true;
                json!({"status": "panic", "msg": m})
            }
        };
        if want_snap && !dead {
            o.as_object_mut()
                .unwrap()
                .insert("snapshot".into(), snapshot(&space));
        }
        if want_snapc && !dead {
            o.as_object_mut()
                .unwrap()
                .insert("snapshot".into(), snapshot_compact(&space));
        }
        ops_out.push(o);
    }
    ans.insert("ops".into(), json!(ops_out));
    ans.insert("dead".into(), json!(dead));
    if dead && !wants(job, "render_after_error") {
        return Value::Object(ans);
    }

    // render (twice, with an iter_types walk in between: C12 item 2)
    let r1 = render(&space);
    let _walk = catch_unwind(AssertUnwindSafe(|| {
        space.iter_types().map(|t| t.name()).collect::<Vec<_>>()
    }));
    let r2 = render(&space);
    match (&r1, &r2) {
        (Ok(a), Ok(b)) => {
            ans.insert("render".into(), json!({"status": "ok", "stable": a == b}));
        }
        (Err(m), _) | (_, Err(m)) => {
            ans.insert("render".into(), json!({"status": "panic", "msg": m}));
        }
    }
    if let Ok(tokens) = &r1 {
        let parsed = syn::parse_str::<syn::File>(tokens);
        ans.insert("syn_ok".into(), json!(parsed.is_ok()));
        if let Err(e) = &parsed {
            ans.insert("syn_err".into(), json!(e.to_string()));
        }
        if wants(job, "tokens") {
            ans.insert("tokens".into(), json!(tokens));
        }
        if let Ok(file) = &parsed {
            if wants(job, "pretty") {
                let p = catch_unwind(AssertUnwindSafe(|| prettyplease::unparse(file)));
                match p {
                    Ok(p) => ans.insert("pretty".into(), json!(p)),
                    Err(e) => ans.insert("pretty_panic".into(), json!(panic_msg(e))),
                };
            }
            if wants(job, "scan") {
                ans.insert("scan".into(), scan::scan_file(file));
            }
            if wants(job, "items") {
                ans.insert("items".into(), scan::item_texts(file));
            }
        }
    }
    if wants(job, "api") {
        ans.insert("api".into(), api_dump(&space));
    }
    if wants(job, "flags") {
        ans.insert(
            "flags".into(),
            json!({"chrono": space.uses_chrono(), "uuid": space.uses_uuid(),
                   "serde_json": space.uses_serde_json(), "regress": space.uses_regress()}),
        );
    }
    // locate definitions: add_type({$ref}) -> get_type -> ident/name, AFTER rendering so the probe
    // cannot disturb what was observed.
    if let Some(names) = job.get("locate").and_then(|x| x.as_array()) {
        let mut loc = Map::new();
        for nm in names {
            let nm = nm.as_str().unwrap_or_default();
            let r = catch_unwind(AssertUnwindSafe(|| -> Result<Value, String> {
                let s: Schema =
                    serde_json::from_value(json!({"$ref": format!("#/definitions/{}", nm)}))
                        .map_err(|e| e.to_string())?;
                let id = space.add_type(&s).map_err(|e| e.to_string())?;
                let t = space.get_type(&id).map_err(|e| e.to_string())?;
                Ok(json!({"id": idnum(&id), "name": t.name(), "ident": ts(t.ident())}))
            }));
            loc.insert(
                nm.to_string(),
                match r {
                    Ok(Ok(v)) => v,
                    Ok(Err(m)) => json!({"err": m}),
                    Err(e) => json!({"panic": panic_msg(e)}),
                },
            );
        }
        ans.insert("locate".into(), Value::Object(loc));
    }
    Value::Object(ans)
}

fn semver_job(job: &Value) -> Value {
    // independent evaluation of "version satisfies requirement" for C13's oracle cross-check
    let req = job.get("req").and_then(|x| x.as_str()).unwrap_or("");
    let ver = job.get("ver").and_then(|x| x.as_str()).unwrap_or("");
    let r = semver::VersionReq::parse(req);
    let v = semver::Version::parse(ver);
    json!({"id": job.get("id"), "req_ok": r.is_ok(), "ver_ok": v.is_ok(),
           "matches": match (r, v) { (Ok(r), Ok(v)) => json!(r.matches(&v)), _ => json!(null) }})
}

fn echo_job(job: &Value) -> Value {
    // echo a schema as schemars parsed it (numbers become f64): C10's oracle judges what typify was given
    let r: Result<Schema, _> = serde_json::from_value(job.get("schema").cloned().unwrap_or(json!({})));
    match r {
        Ok(s) => json!({"id": job.get("id"), "echo": serde_json::to_value(&s).unwrap()}),
        Err(e) => json!({"id": job.get("id"), "echo_err": e.to_string()}),
    }
}

fn parse_job(job: &Value) -> Value {
    // parse Rust source text (CLI output, macro expansion) into the same flat item list the builder output gets
    let src = job.get("source").and_then(|x| x.as_str()).unwrap_or("");
    match syn::parse_file(src) {
        Ok(f) => json!({"id": job.get("id"), "ok": true, "items": scan::item_texts(&f),
                        "inner_attrs": f.attrs.iter().map(|a| a.to_token_stream().to_string()).collect::<Vec<_>>()}),
        Err(e) => json!({"id": job.get("id"), "ok": false, "err": e.to_string()}),
    }
}

fn main() {
    std::panic::set_hook(Box::new(|_| {}));
    let stdin = std::io::stdin();
    let stdout = std::io::stdout();
    let mut out = std::io::BufWriter::new(stdout.lock());
    for line in stdin.lock().lines() {
        let line = match line {
            Ok(l) => l,
            Err(_) => break,
        };
        if line.trim().is_empty() {
            continue;
        }
        let job: Value = match serde_json::from_str(&line) {
            Ok(j) => j,
            Err(e) => {
                writeln!(out, "{}", json!({"id": null, "job_parse_error": e.to_string()})).unwrap();
                continue;
            }
        };
        // announce the job so that an abort (stack overflow) can be attributed by the caller
        let ans = match job.get("kind").and_then(|k| k.as_str()) {
            Some("semver") => semver_job(&job),
            Some("echo") => echo_job(&job),
            Some("parse") => parse_job(&job),
            _ => {
                // run on a big stack: deep recursion in typify on tiny inputs is an observation, not ours
                let j = job.clone();
                let h = std::thread::Builder::new()
                    .stack_size(256 << 20)
                    .spawn(move || run_job(&j))
                    .unwrap();
                match h.join() {
                    Ok(v) => v,
                    Err(e) => json!({"id": job.get("id"), "adapter_panic": panic_msg(e)}),
                }
            }
        };
        writeln!(out, "{}", ans).unwrap();
        out.flush().unwrap();
    }
    let _ = BTreeMap::<u8, u8>::new();
    let _ = ToTokens::to_token_stream(&quote::quote!());
}
