//! Generic probe functions and replacement/conversion/map target types used by the batch drivers.
//! Boring on purpose: every function turns one call on a generated type into a JSON observation.

pub use chrono;
pub use regress;
pub use serde;
pub use serde_json;
pub use uuid;

use serde::de::DeserializeOwned;
use serde::Serialize;
use serde_json::{json, Value};
use std::fmt::Display;
use std::panic::{catch_unwind, AssertUnwindSafe};
use std::str::FromStr;

fn pmsg(e: Box<dyn std::any::Any + Send>) -> String {
    if let Some(s) = e.downcast_ref::<&str>() {
        s.to_string()
    } else if let Some(s) = e.downcast_ref::<String>() {
        s.clone()
    } else {
        "<panic>".into()
    }
}

pub fn guard<F: FnOnce() -> Value>(f: F) -> Value {
    match catch_unwind(AssertUnwindSafe(f)) {
        Ok(v) => v,
        Err(e) => json!({"panic": pmsg(e)}),
    }
}

fn ser<T: Serialize>(t: &T) -> Value {
    match serde_json::to_value(t) {
        Ok(v) => json!({"v": v}),
        Err(e) => json!({"ser_err": e.to_string()}),
    }
}

/// deserialize, serialize back, and round-trip once more
pub fn de<T: DeserializeOwned + Serialize + std::fmt::Debug>(arg: &str) -> Value {
    guard(|| match serde_json::from_str::<T>(arg) {
        Err(e) => json!({"ok": false, "err": e.to_string()}),
        Ok(t) => {
            let w = ser(&t);
            // the Debug text tells WHICH value was built (two variants of an untagged enum can serialise alike)
            let mut out = json!({"ok": true, "w": w, "dbg": format!("{:?}", t)});
            if let Some(wv) = w.get("v") {
                let w2 = match serde_json::from_value::<T>(wv.clone()) {
                    Err(e) => json!({"ok": false, "err": e.to_string()}),
                    Ok(t2) => json!({"ok": true, "w": ser(&t2)}),
                };
                out.as_object_mut().unwrap().insert("w2".into(), w2);
            }
            out
        }
    })
}

fn res<T: Serialize + std::fmt::Debug, E: Display>(r: Result<T, E>) -> Value {
    match r {
        Ok(t) => json!({"ok": true, "w": ser(&t), "dbg": format!("{:?}", t)}),
        Err(e) => json!({"ok": false, "err": e.to_string()}),
    }
}

pub fn from_str<T: FromStr + Serialize + std::fmt::Debug>(arg: &str) -> Value
where
    T::Err: Display,
{
    guard(|| res(arg.parse::<T>()))
}

pub fn try_from_str<T: for<'a> TryFrom<&'a str> + Serialize + std::fmt::Debug>(arg: &str) -> Value
where
    for<'a> <T as TryFrom<&'a str>>::Error: Display,
{
    guard(|| res(T::try_from(arg)))
}

pub fn try_from_string_ref<T: for<'a> TryFrom<&'a String> + Serialize + std::fmt::Debug>(arg: &str) -> Value
where
    for<'a> <T as TryFrom<&'a String>>::Error: Display,
{
    let s = arg.to_string();
    guard(|| res(T::try_from(&s)))
}

pub fn try_from_string<T: TryFrom<String> + Serialize + std::fmt::Debug>(arg: &str) -> Value
where
    <T as TryFrom<String>>::Error: Display,
{
    guard(|| res(T::try_from(arg.to_string())))
}

/// deserialize the JSON string `arg`, then compare Display with the serialized form
pub fn display<T: DeserializeOwned + Display + Serialize>(arg: &str) -> Value {
    guard(|| match serde_json::from_str::<T>(arg) {
        Err(e) => json!({"ok": false, "err": e.to_string()}),
        Ok(t) => json!({"ok": true, "display": t.to_string(), "w": ser(&t)}),
    })
}

pub fn default<T: Default + Serialize>() -> Value {
    guard(|| json!({"ok": true, "w": ser(&T::default())}))
}

/// From<&T> for T (C19): clone through the reference conversion and compare on the wire
pub fn from_ref<T: DeserializeOwned + Serialize + for<'a> From<&'a T>>(arg: &str) -> Value {
    guard(|| match serde_json::from_str::<T>(arg) {
        Err(e) => json!({"ok": false, "err": e.to_string()}),
        Ok(t) => {
            let u: T = T::from(&t);
            json!({"ok": true, "w": ser(&t), "w_ref": ser(&u)})
        }
    })
}

/// Targets for `with_replacement` / `with_conversion` and a map type that meets exactly the documented
/// `with_map_type` requirements (is_empty, two parameters, Default + Clone + Debug + Serialize + Deserialize).
pub mod ext {
    use serde::{Deserialize, Serialize};
    use std::collections::BTreeMap;

    /// accepts and reproduces any JSON value
    #[derive(Debug, Clone, PartialEq, Serialize, Deserialize, Default)]
    #[serde(transparent)]
    pub struct Repl(pub serde_json::Value);

    /// a string-like external type with FromStr / Display
    #[derive(Debug, Clone, PartialEq, Eq, PartialOrd, Ord, Hash, Serialize, Deserialize, Default)]
    #[serde(transparent)]
    pub struct Conv(pub String);

    impl std::str::FromStr for Conv {
        type Err = std::convert::Infallible;
        fn from_str(s: &str) -> Result<Self, Self::Err> {
            Ok(Conv(s.to_string()))
        }
    }
    impl std::fmt::Display for Conv {
        fn fmt(&self, f: &mut std::fmt::Formatter<'_>) -> std::fmt::Result {
            f.write_str(&self.0)
        }
    }

    #[derive(Debug, Clone, PartialEq)]
    pub struct VMap<K, V>(pub BTreeMap<K, V>);

    impl<K, V> Default for VMap<K, V> {
        fn default() -> Self {
            VMap(BTreeMap::new())
        }
    }
    impl<K, V> VMap<K, V> {
        pub fn is_empty(&self) -> bool {
            self.0.is_empty()
        }
    }
    impl<K: Serialize, V: Serialize> Serialize for VMap<K, V> {
        fn serialize<S: serde::Serializer>(&self, s: S) -> Result<S::Ok, S::Error> {
            self.0.serialize(s)
        }
    }
    impl<'de, K: Deserialize<'de> + Ord, V: Deserialize<'de>> Deserialize<'de> for VMap<K, V> {
        fn deserialize<D: serde::Deserializer<'de>>(d: D) -> Result<Self, D::Error> {
            Ok(VMap(BTreeMap::deserialize(d)?))
        }
    }
}

/// Stand-ins for the external crates named by x-rust-type extensions in C15's macro-expansion crate (this crate is
/// imported under several names there); only their paths have to resolve.
pub mod sub {
    #[derive(Debug, Clone, Default, serde::Serialize, serde::Deserialize)]
    pub struct Thing;
}
#[derive(Debug, Clone, Default, serde::Serialize, serde::Deserialize)]
pub struct Other2;
#[derive(Debug, Clone, Default, serde::Serialize, serde::Deserialize)]
pub struct Hh;
