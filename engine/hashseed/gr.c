/* LD_PRELOAD interposer: std looks `getrandom` up as a weak symbol, so the keys of every
 * std::collections::HashMap/HashSet RandomState in the process derive from VERIF_HASH_SEED.
 * Equal seeds give equal iteration orders, different seeds (almost always) different ones. */
#define _GNU_SOURCE
#include <stdint.h>
#include <stdlib.h>
#include <string.h>
#include <sys/types.h>

static uint64_t state;
static int init;

static uint64_t next(void) {
    /* splitmix64 */
    uint64_t z = (state += 0x9e3779b97f4a7c15ULL);
    z = (z ^ (z >> 30)) * 0xbf58476d1ce4e5b9ULL;
    z = (z ^ (z >> 27)) * 0x94d049bb133111ebULL;
    return z ^ (z >> 31);
}

ssize_t getrandom(void *buf, size_t buflen, unsigned int flags) {
    (void)flags;
    if (!init) {
        const char *s = getenv("VERIF_HASH_SEED");
        state = s ? strtoull(s, NULL, 10) * 0x2545F4914F6CDD1DULL + 1 : 1;
        init = 1;
    }
    unsigned char *p = buf;
    size_t i = 0;
    while (i < buflen) {
        uint64_t v = next();
        size_t n = buflen - i < 8 ? buflen - i : 8;
        memcpy(p + i, &v, n);
        i += n;
    }
    return (ssize_t)buflen;
}
