#!/bin/bash
# MANIFEST.setup_cmd: build the framework offline from files on disk only.
set -e
cd "$(dirname "$0")"
export CARGO_NET_OFFLINE=true PYTHONHASHSEED=0
[ -f engine/Cargo.lock ] || cp /repo/Cargo.lock engine/Cargo.lock
(cd engine && cargo +1.80.1 build --offline -p tvadapter -p verif_support 2>&1 | tail -3)
python3-vt -c "from tv.props import C12; C12.ensure_libgr()"
python3-vt -c "from tv import setup_warm; setup_warm.main()"
