"""Case families shared by C02 and C03 (identical case lists -> one cached pipeline run serves both)."""
from .menus import shapes


def faithful_cases(tier):
    out = [p for p in shapes.space_depth2(tier) if p["ff"]]
    if tier != "quick":
        out += [p for p in shapes.space_depth3(tier) if p["ff"]]
        out += [p for p in shapes.pairs(tier) if p["ff"]]
    else:
        out += [p for p in shapes.pairs(tier) if p["ff"]][:60]
    out += [p for p in shapes.twins(tier) if p["ff"]]
    seen = set()
    res = []
    for p in out:
        if p["id"] not in seen:
            seen.add(p["id"])
            res.append(p)
    return res


def enforced_cases(tier):
    out = [p for p in shapes.space_depth2(tier) if p["enf"]]
    if tier != "quick":
        out += [p for p in shapes.space_depth3(tier) if p["enf"]]
    out += [p for p in shapes.twins(tier) if p["enf"]]
    seen = set()
    res = []
    for p in out:
        if p["id"] not in seen:
            seen.add(p["id"])
            res.append(p)
    return res


DEPTH = {"quick": 2, "thorough": 3}
