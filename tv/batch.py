"""Batch compilation and execution of generated code (DESIGN §2.2).

One file per case, 1..16 crates per batch in one cargo workspace (one cargo invocation, crates build in
parallel), shared warmed target dir, iterative attribution of compile errors to cases, per-probe JSON
observations from a generated driver.
"""
import json
import os
import re
import shutil
import subprocess
from concurrent.futures import ThreadPoolExecutor

from .common import CARGO_ENV, ENGINE, NPROC, REPO, TOOLCHAIN, WORK, MachineryError, ensure_dir, log, run

TARGET = os.path.join(WORK, "target-batch")

_MAIN_HEAD = r'''#![allow(warnings)]
use verif_support as vs;
use vs::serde_json::{self, json, Value};
use std::io::{BufRead, Write};
'''

_MAIN_TAIL = r'''
fn main() {
    std::panic::set_hook(Box::new(|_| {}));
    let path = std::env::args().nth(1).expect("probe file");
    let f = std::io::BufReader::new(std::fs::File::open(path).unwrap());
    let out = std::io::stdout();
    let mut out = std::io::BufWriter::new(out.lock());
    for line in f.lines() {
        let line = line.unwrap();
        if line.trim().is_empty() { continue; }
        let p: Value = serde_json::from_str(&line).unwrap();
        let i = p["i"].as_u64().unwrap();
        let case = p["case"].as_str().unwrap();
        let ty = p["ty"].as_str().unwrap();
        let kind = p["kind"].as_str().unwrap();
        let arg = p["arg"].as_str().unwrap_or("");
        writeln!(out, "{}", json!({"i": i, "start": true})).unwrap();
        out.flush().unwrap();
        let res = dispatch(case, ty, kind, arg);
        let res = match res { Some(v) => v, None => json!({"nodispatch": true}) };
        writeln!(out, "{}", json!({"i": i, "res": res})).unwrap();
    }
    out.flush().unwrap();
}
'''

PROBE_FNS = {
    # kind -> generic function in verif_support taking (arg)
    "de": "de", "from_str": "from_str", "try_from_str": "try_from_str", "try_from_string_ref": "try_from_string_ref",
    "try_from_string": "try_from_string", "display": "display", "from_ref": "from_ref",
}


def modname(case_id):
    return "c_" + re.sub(r"[^0-9a-zA-Z_]", "_", case_id)


PROBE_TIMEOUT_S = float(os.environ.get("VERIF_PROBE_TIMEOUT", "300"))


class Case:
    def __init__(self, case_id, code, types=None, extra="", asserts=None, wrap_mod=None):
        """code: Rust source of the generated module (pretty-printed token stream).
        types: {type path inside the module: [probe kinds]} -> generic dispatch arms in main.rs
        extra: Rust appended to the case file inside `pub mod verif_x { use super::*; ... }`; may define
               `pub fn probe(kind:&str,arg:&str)->Option<Value>` reachable as ty == "@x".
        asserts: list of Rust item snippets placed in the case's file (compile-time assertions)."""
        self.id = case_id
        self.code = code
        self.types = types or {}
        self.extra = extra
        self.asserts = asserts or []
        self.wrap_mod = wrap_mod      # place the generated code inside `pub mod <wrap_mod> { .. }` (C17: type_mod)
        self.assert_line = None       # first line of the assertion region in the case file (set when written)
        self.has_x = "pub fn probe" in extra


class Batch:
    def __init__(self, name, cases, mode="build", ncrates=None, per_crate=24):
        self.name = re.sub(r"[^0-9a-zA-Z_]", "_", name)
        self.cases = {c.id: c for c in cases}
        if len(self.cases) != len(cases):
            raise MachineryError("duplicate case ids in batch")
        self.mode = mode
        n = len(cases)
        # enough crates to use all cores on small batches, never more than ~60 modules per crate (rustc memory)
        self.ncrates = ncrates or max(1, (n + 59) // 60, min(NPROC, (n + per_crate - 1) // per_crate))
        self.dir = os.path.join(WORK, "batch", self.name)
        self.assign = {}
        ids = sorted(self.cases)
        for i, cid in enumerate(ids):
            self.assign[cid] = i % self.ncrates
        self.failed = {}   # case id -> list of error dicts (from the round in which it failed)
        self.rounds = 0
        self.linemap = {}  # crate index -> {line no in main.rs: case id}

    def crate(self, k):
        return "b_%s_%d" % (self.name, k)

    # ---------- writing ----------
    def _write(self):
        if os.path.exists(self.dir):
            shutil.rmtree(self.dir)
        ensure_dir(self.dir)
        members = []
        for k in range(self.ncrates):
            cdir = ensure_dir(os.path.join(self.dir, self.crate(k), "src"))
            members.append(self.crate(k))
            with open(os.path.join(self.dir, self.crate(k), "Cargo.toml"), "w") as f:
                f.write('[package]\nname = "%s"\nversion = "0.0.0"\nedition = "2021"\npublish = false\n\n'
                        '[dependencies]\nverif_support = { path = "%s/support" }\n'
                        'serde = { version = "1.0.219", features = ["derive"] }\nserde_json = "1.0.140"\n'
                        'chrono = { version = "0.4.40", features = ["serde"] }\nuuid = { version = "1.16.0", features = ["serde"] }\n'
                        'regress = "0.10.3"\nschemars = "0.8.22"\n' % (self.crate(k), ENGINE))
        with open(os.path.join(self.dir, "Cargo.toml"), "w") as f:
            f.write('[workspace]\nmembers = [%s]\nresolver = "2"\n\n[profile.dev]\ndebug = 0\nopt-level = 0\nincremental = false\n'
                    % ", ".join('"%s"' % m for m in members))
        shutil.copy(os.path.join(REPO, "Cargo.lock"), os.path.join(self.dir, "Cargo.lock"))
        with open(os.path.join(self.dir, "rust-toolchain.toml"), "w") as f:
            f.write('[toolchain]\nchannel = "1.80.1"\n')
        ensure_dir(os.path.join(self.dir, ".cargo"))
        with open(os.path.join(self.dir, ".cargo", "config.toml"), "w") as f:
            f.write("[net]\noffline = true\n")
        for cid, c in self.cases.items():
            self._write_case(c)
        for k in range(self.ncrates):
            self._write_main(k)

    def _write_case(self, c):
        k = self.assign[c.id]
        p = os.path.join(self.dir, self.crate(k), "src", modname(c.id) + ".rs")
        with open(p, "w") as f:
            text = "#![allow(warnings)]\n"
            if c.wrap_mod:
                text += "pub mod %s {\n%s\n}\n" % (c.wrap_mod, c.code)
            else:
                text += c.code + "\n"
            c.assert_line = text.count("\n") + 1
            for a in c.asserts:
                text += a + "\n"
            f.write(text)
            if c.extra:
                f.write("pub mod verif_x {\n    use super::*;\n    use verif_support as vs;\n    use vs::serde_json::{self, json, Value};\n")
                f.write(c.extra)
                f.write("\n}\n")

    def _write_main(self, k):
        live = [cid for cid in sorted(self.cases) if self.assign[cid] == k and cid not in self.failed]
        lines = _MAIN_HEAD.split("\n")
        linemap = {}
        for cid in live:
            lines.append('#[path = "%s.rs"] mod %s;' % (modname(cid), modname(cid)))
            linemap[len(lines)] = cid
        lines.append("fn dispatch(case: &str, ty: &str, kind: &str, arg: &str) -> Option<Value> {")
        lines.append("    match (case, ty, kind) {")
        for cid in live:
            c = self.cases[cid]
            for ty, kinds in sorted(c.types.items()):
                for kind in kinds:
                    if kind == "default":
                        call = "vs::default::<%s::%s>()" % (modname(cid), ty)
                    else:
                        call = "vs::%s::<%s::%s>(arg)" % (PROBE_FNS[kind], modname(cid), ty)
                    lines.append('        (%s, %s, "%s") => Some(%s),' % (json.dumps(cid), json.dumps(ty), kind, call))
                    linemap[len(lines)] = cid
            if c.has_x:
                lines.append('        (%s, "@x", k) => %s::verif_x::probe(k, arg),' % (json.dumps(cid), modname(cid)))
                linemap[len(lines)] = cid
        lines.append("        _ => None,")
        lines.append("    }")
        lines.append("}")
        lines += _MAIN_TAIL.split("\n")
        self.linemap[k] = linemap
        with open(os.path.join(self.dir, self.crate(k), "src", "main.rs"), "w") as f:
            f.write("\n".join(lines))

    # ---------- compiling ----------
    def _cargo(self):
        env = dict(CARGO_ENV)
        env["CARGO_TARGET_DIR"] = TARGET
        cmd = ["cargo", TOOLCHAIN, "check" if self.mode == "check" else "build", "--offline", "--keep-going",
               "--message-format=json", "--workspace", "-j", str(NPROC)]
        p = subprocess.run(cmd, cwd=self.dir, env=env, stdout=subprocess.PIPE, stderr=subprocess.PIPE)
        errs = []   # (crate index, file, line, code, message)
        for line in p.stdout.decode("utf-8", errors="replace").split("\n"):
            if not line.startswith("{"):
                continue
            try:
                m = json.loads(line)
            except Exception:
                continue
            if m.get("reason") != "compiler-message":
                continue
            msg = m.get("message", {})
            if msg.get("level") not in ("error", "error: internal compiler error"):
                continue
            tgt = m.get("target", {}).get("name", "")
            mm = re.match(r"b_.*_(\d+)$", tgt)
            if not mm:
                raise MachineryError("compile error outside batch crates (%s): %s" % (tgt, msg.get("rendered", "")[:2000]))
            k = int(mm.group(1))
            code = (msg.get("code") or {}).get("code") or "nocode"
            spans = msg.get("spans") or []
            prim = [s for s in spans if s.get("is_primary")] or spans

            def outer(s):
                # errors inside macro expansions (derive) point at the expansion site through `expansion`
                while s.get("expansion") and not s.get("file_name", "").startswith("src/"):
                    s = s["expansion"]["span"]
                return s
            if not prim:
                if "aborting due to" in msg.get("message", "") or "could not compile" in msg.get("message", ""):
                    continue
                errs.append((k, None, None, code, msg.get("message", ""), msg.get("rendered", ""), None))
                continue
            s = outer(prim[0])
            # name of the derive macro the error arises in, if any (C19 tells underivable traits from other trait errors)
            derive, e = None, prim[0]
            while e.get("expansion"):
                mname = e["expansion"].get("macro_decl_name") or ""
                if "derive(" in mname:
                    derive = mname
                e = e["expansion"]["span"]
            errs.append((k, os.path.basename(s.get("file_name", "")), s.get("line_start"), code, msg.get("message", ""),
                         msg.get("rendered", ""), derive))
        return p.returncode, errs, p.stderr.decode("utf-8", errors="replace")

    def compile(self, max_rounds=25):
        """Returns {case id: {"ok": bool, "errors": [{code,msg,where}], "round": n}}"""
        self._write()
        while True:
            self.rounds += 1
            rc, errs, stderr = self._cargo()
            if rc == 0 and not errs:
                break
            newly = {}
            for (k, fname, line, code, message, rendered, derive) in errs:
                cid = None
                where = "module"
                mods = {modname(c): c for c in self.cases if self.assign[c] == k}
                if fname and fname.startswith("c_") and fname.endswith(".rs"):
                    cid = mods.get(fname[:-3])
                elif fname == "main.rs":
                    cid = self.linemap[k].get(line)
                    where = "dispatch"
                if cid is None:
                    # errors without a usable span (layout cycles, overflow) name the module in their text
                    named = [m for m in re.findall(r"\bc_[0-9A-Za-z_]+", message + " " + rendered) if m in mods]
                    if named:
                        cid = mods[named[0]]
                        where = "text"
                if cid is None:
                    raise MachineryError("unattributable compile error in %s (%s:%s) %s: %s\n%s" %
                                         (self.crate(k), fname, line, code, message, stderr[-3000:]))
                if where == "module" and line is not None and self.cases[cid].assert_line is not None and line >= self.cases[cid].assert_line \
                        and self.cases[cid].asserts:
                    where = "assert"
                srcline = None
                if where in ("module", "assert") and line is not None and fname:
                    try:
                        with open(os.path.join(self.dir, self.crate(k), "src", fname)) as fh:
                            srcline = fh.read().split("\n")[line - 1].strip()[:200]
                    except Exception:
                        srcline = None
                newly.setdefault(cid, []).append({"code": code, "msg": message[:300], "where": where, "line": line, "derive": derive, "src": srcline})
            if not newly:
                raise MachineryError("cargo failed without attributable errors:\n" + stderr[-4000:])
            for cid, es in newly.items():
                if cid in self.failed:
                    raise MachineryError("case %s failed again after removal" % cid)
                self.failed[cid] = es
            if self.rounds >= max_rounds:
                raise MachineryError("attribution loop did not converge in %d rounds" % max_rounds)
            for k in sorted({self.assign[c] for c in newly}):
                self._write_main(k)
        res = {}
        for cid in self.cases:
            if cid in self.failed:
                res[cid] = {"ok": False, "errors": self.failed[cid]}
            else:
                res[cid] = {"ok": True, "errors": []}
        return res

    # ---------- running ----------
    def _run_crate(self, k, probes):
        """probes: list of dicts with i, case, ty, kind, arg. Abnormal exit (stack overflow, abort) is
        attributed to the probe that was in flight; the rest continues in a fresh process."""
        exe = os.path.join(TARGET, "debug", self.crate(k))
        results = {}
        pending = list(probes)
        pf = os.path.join(self.dir, "probes_%d.jsonl" % k)
        guard = 0
        while pending:
            guard += 1
            with open(pf, "w") as f:
                for p in pending:
                    f.write(json.dumps(p) + "\n")
            # generated code that never returns (e.g. mutually recursive default functions) must end in a verdict for the probe in flight
            try:
                p = subprocess.run([exe, pf], stdout=subprocess.PIPE, stderr=subprocess.PIPE, timeout=PROBE_TIMEOUT_S + 0.05 * len(pending))
            except subprocess.TimeoutExpired as te:
                class _P:
                    pass
                p = _P()
                p.stdout, p.stderr, p.returncode = te.stdout or b"", (te.stderr or b"") + b"\n[verif] probe driver killed: timeout", -9
            started = None
            for line in p.stdout.decode("utf-8", errors="replace").split("\n"):
                if not line.strip():
                    continue
                try:
                    o = json.loads(line)
                except Exception:
                    continue
                if o.get("start"):
                    started = o["i"]
                elif "res" in o:
                    results[o["i"]] = o["res"]
                    started = None
            if p.returncode == 0 and started is None:
                missing = [q for q in pending if q["i"] not in results]
                if missing:
                    raise MachineryError("driver finished without answering %d probes" % len(missing))
                break
            if started is None:
                raise MachineryError("driver %s died (rc=%s) outside a probe: %s" % (exe, p.returncode, p.stderr.decode(errors="replace")[-1000:]))
            results[started] = {"abort": True, "returncode": p.returncode}
            pending = [q for q in pending if q["i"] not in results]
            if guard > 2000:
                raise MachineryError("too many driver aborts")
        return results

    def run(self, probes):
        """probes: list of (case id, ty, kind, arg string). Returns list of results aligned with input;
        probes of compile-failed cases get {"compile_failed": True}."""
        per = {}
        out = [None] * len(probes)
        for i, (cid, ty, kind, arg) in enumerate(probes):
            if cid in self.failed:
                out[i] = {"compile_failed": True}
                continue
            per.setdefault(self.assign[cid], []).append({"i": i, "case": cid, "ty": ty, "kind": kind, "arg": arg})
        with ThreadPoolExecutor(max_workers=NPROC) as ex:
            for res in ex.map(lambda kv: self._run_crate(kv[0], kv[1]), sorted(per.items())):
                for i, r in res.items():
                    out[i] = r
        return out

    def cleanup(self):
        shutil.rmtree(self.dir, ignore_errors=True)
        dbg = os.path.join(TARGET, "debug")
        for sub in ("", "deps", ".fingerprint", "incremental", "build"):
            d = os.path.join(dbg, sub)
            if not os.path.isdir(d):
                continue
            for fn in os.listdir(d):
                if fn.startswith("b_%s_" % self.name) or fn.startswith("libb_%s_" % self.name):
                    p = os.path.join(d, fn)
                    if os.path.isdir(p):
                        shutil.rmtree(p, ignore_errors=True)
                    else:
                        try:
                            os.remove(p)
                        except OSError:
                            pass
