"""The wire pipeline shared by C02/C03/C05/C09/C11/C14: placed schema cases -> adapter (real typify) -> batch
compile -> instance universe classified by the oracle -> every instance run through the compiled type."""
import hashlib
import json
import os
import pickle
import re
import subprocess

from . import adapter, batch, oracle, universe
from .common import MachineryError, REPO, WORK, canon, ensure_dir, key_of, log


def tree_state():
    """identifies /repo's current working tree (HEAD + uncommitted changes + untracked files)"""
    h = hashlib.sha256()
    for cmd in (["git", "-C", REPO, "rev-parse", "HEAD"], ["git", "-C", REPO, "diff", "HEAD"],
                ["git", "-C", REPO, "status", "--porcelain", "--untracked-files=all"]):
        h.update(subprocess.run(cmd, stdout=subprocess.PIPE).stdout)
    # untracked file contents
    p = subprocess.run(["git", "-C", REPO, "ls-files", "--others", "--exclude-standard"], stdout=subprocess.PIPE)
    for fn in p.stdout.decode().split("\n"):
        fp = os.path.join(REPO, fn)
        if fn and os.path.isfile(fp) and not fn.startswith("target/"):
            try:
                h.update(open(fp, "rb").read())
            except OSError:
                pass
    return h.hexdigest()[:24]


def code_state():
    """hash of the framework's own sources: cached observations never outlive a change to the machinery"""
    h = hashlib.sha256()
    base = os.path.dirname(os.path.abspath(__file__))
    for root, _, files in sorted(os.walk(base)):
        for fn in sorted(files):
            if fn.endswith(".py"):
                h.update(open(os.path.join(root, fn), "rb").read())
    for fn in ("adapter/src/main.rs", "adapter/src/scan.rs", "support/src/lib.rs"):
        h.update(open(os.path.join(base, "..", "engine", fn), "rb").read())
    return h.hexdigest()[:16]


def norm_trait(t):
    return (t or "").replace(" ", "")


def traits_by_type(scan):
    """{self type text -> set of trait paths} from the synscan dump (root module only)."""
    out = {}
    for it in (scan or {}).get("mods", {}).get("", []):
        if it.get("kind") == "impl" and it.get("trait"):
            out.setdefault(norm_trait(it["self_ty"]), set()).add(norm_trait(it["trait"]))
    return out


def str_probe_kinds(traits):
    ks = []
    if "::std::str::FromStr" in traits:
        ks.append("from_str")
    if "::std::convert::TryFrom<&str>" in traits:
        ks.append("try_from_str")
    if "::std::convert::TryFrom<&String>" in traits or "::std::convert::TryFrom<&::std::string::String>" in traits:
        ks.append("try_from_string_ref")
    if "::std::convert::TryFrom<String>" in traits or "::std::convert::TryFrom<::std::string::String>" in traits:
        ks.append("try_from_string")
    if "::std::fmt::Display" in traits:
        ks.append("display")
    return ks


class WireCase:
    __slots__ = ("id", "key", "placed", "settings", "ingest", "render", "syn_ok", "compiled", "errors", "ident", "traits",
                 "instances", "truncated", "answer", "scan", "extra_obs", "api", "flags", "locate", "pretty")

    def __init__(self):
        self.extra_obs = {}


def run(placed, settings, name, depth=2, want_str=False, limit=600, use_cache=True, mode="build", extra_probes=None,
        keep_scan=False, clip_i64=True, decorate=None, keep_api=False, need_target=True, keep_pretty=False, instances=True):
    """placed: list of dicts(id, doc, target). Returns list of WireCase (same order).
    extra_probes(case, traits) -> list of (kind, arg) additional probes for the target type (C11)."""
    ensure_dir(os.path.join(WORK, "cache"))
    ck = key_of([tree_state(), code_state(), [(p["id"], p["doc"], p["target"], p.get("settings"), p.get("ops"), p.get("depth")) for p in placed], settings, depth, want_str, limit, mode, name, keep_scan,
                 "v5", instances, extra_probes.__name__ if extra_probes else None,
                 (decorate.__module__ + "." + decorate.__name__) if decorate else None, keep_api, need_target, keep_pretty])
    cpath = os.path.join(WORK, "cache", "wire_%s.pkl" % ck)
    if use_cache and os.path.exists(cpath) and not os.environ.get("VERIF_NOCACHE"):
        with open(cpath, "rb") as f:
            log("wire: using cached observations for identical tree+cases (%s)" % ck)
            return pickle.load(f)

    jobs = []
    cases = []
    for i, p in enumerate(placed):
        wc = WireCase()
        wc.id = p["id"]
        wc.key = key_of([name, p["id"], p["doc"], p.get("settings", settings), p.get("ops")])
        wc.placed = p
        wc.settings = p.get("settings", settings)
        cases.append(wc)
        job = {"id": str(i), "settings": wc.settings, "ops": p.get("ops") or [{"root": p["doc"]}], "want": ["pretty", "scan", "api", "flags"]}
        if p["target"]:
            job["locate"] = [p["target"]]
        jobs.append(job)
    ans = adapter.run_jobs(jobs)
    bcases = []
    for i, wc in enumerate(cases):
        a = ans[str(i)]
        wc.answer = {k: v for k, v in a.items() if k in ("ops", "render", "syn_ok", "syn_err", "abort", "dead")}
        wc.scan = a.get("scan") if keep_scan else None
        wc.api = a.get("api") if keep_api else None
        wc.flags = a.get("flags")
        wc.locate = a.get("locate")
        wc.pretty = a.get("pretty") if keep_pretty else None
        _ops = a.get("ops") or [{"status": "abort"}]
        wc.ingest = next((o for o in _ops if o.get("status") != "ok"), _ops[0])
        wc.render = a.get("render")
        wc.syn_ok = a.get("syn_ok")
        wc.compiled = None
        wc.errors = []
        wc.ident = None
        wc.traits = set()
        wc.instances = []
        wc.truncated = False
        if a.get("abort"):
            wc.ingest = {"status": "abort"}
            continue
        if wc.ingest.get("status") != "ok" or not wc.render or wc.render.get("status") != "ok" or not wc.syn_ok or "pretty" not in a:
            continue
        # locate the probed type
        if wc.placed["target"]:
            loc = (a.get("locate") or {}).get(wc.placed["target"]) or {}
            ident = loc.get("ident")
        else:
            tid = next((o.get("type_id") for o in reversed(a.get("ops") or []) if o.get("type_id") is not None), None)
            ident = None
            for t in a["api"]["types"]:
                if t["id"] == tid:
                    ident = t["ident"]
        if (not ident or not isinstance(ident, str)) and need_target:
            wc.ingest = {"status": "unlocated", "msg": "target type not found through add_type($ref)/root id"}
            continue
        types = {}
        alias = []
        if ident and isinstance(ident, str) and mode != "check":
            wc.ident = ident.replace(" ", "")
            tb = traits_by_type(a.get("scan"))
            wc.traits = tb.get(wc.ident, set())
            kinds = ["de"]
            if want_str:
                kinds += str_probe_kinds(wc.traits)
            named = {it.get("name") for it in (a.get("scan") or {}).get("mods", {}).get("", []) if it.get("kind") in ("struct", "enum", "type")}
            if wc.ident not in named:
                # the located type is not a named item (e.g. add_type_with_name returned u8 or Vec<Foo>): probe it through an alias
                # declared inside the case's module, where relative paths resolve
                alias = ["pub type VerifTarget = %s;" % ident]
                wc.ident = "VerifTarget"
            types = {wc.ident: kinds}
        elif ident and isinstance(ident, str):
            wc.ident = ident.replace(" ", "")
        deco = decorate(wc, a) if decorate else {}
        bcases.append(batch.Case(wc.key, a["pretty"] + "\n" + "\n".join(alias), types, asserts=deco.get("asserts"), wrap_mod=deco.get("wrap_mod"), extra=deco.get("extra", "")))
    if bcases:
        b = batch.Batch(name, bcases, mode=mode)
        comp = b.compile()
    else:
        b, comp = None, {}
    # instances
    probes = []
    index = []
    for wc in cases:
        if wc.key not in comp:
            continue
        wc.compiled = comp[wc.key]["ok"]
        wc.errors = comp[wc.key]["errors"]
        wc.extra_obs["assert_start"] = b.cases[wc.key].assert_line
        if not wc.compiled or mode == "check":
            continue
        for k in wc.extra_obs.get("probes", []):
            probes.append((wc.key, "@x", k, ""))
            index.append((wc, "@x:" + k))
        if not instances:
            continue
        doc = wc.placed["doc"]
        if "instances" in wc.placed:
            # the family supplies its own candidates (C04: serialized values of the original Rust type)
            jorc = oracle.Oracle(doc, clip_i64=clip_i64) if wc.placed.get("judge") else None
            for v in wc.placed["instances"]:
                valid = True if jorc is None else (jorc.valid_def(wc.placed["target"], v) if wc.placed["target"] else jorc.valid(v))
                rec = {"v": v, "flags": [], "valid": valid, "res": None, "str": {}}
                wc.instances.append(rec)
                probes.append((wc.key, wc.ident, "de", json.dumps(v)))
                index.append((rec, "de"))
            continue
        univ, trunc = universe.universe(doc, wc.placed["target"], depth=max(depth, wc.placed.get("depth") or 0), limit=limit)   # a shape may ask for a deeper universe than the tier's
        wc.truncated = trunc
        orc = oracle.Oracle(doc if wc.placed["target"] is None else doc, clip_i64=clip_i64)
        for (v, flags) in univ:
            try:
                valid = orc.valid_def(wc.placed["target"], v) if wc.placed["target"] else orc.valid(v)
            except Exception as e:  # an instance the validator cannot judge (e.g. regex it rejects) is machinery trouble
                raise MachineryError("oracle failed on %s: %s" % (wc.id, e))
            rec = {"v": v, "flags": sorted(flags), "valid": valid, "res": None, "str": {}}
            wc.instances.append(rec)
            probes.append((wc.key, wc.ident, "de", json.dumps(v)))
            index.append((rec, "de"))
            if want_str and isinstance(v, str):
                for k in str_probe_kinds(wc.traits):
                    arg = json.dumps(v) if k == "display" else v
                    probes.append((wc.key, wc.ident, k, arg))
                    index.append((rec, k))
    if probes:
        results = b.run(probes)
        for (rec, kind), r in zip(index, results):
            if kind.startswith("@x:"):
                rec.extra_obs.setdefault("probe_results", {})[kind[3:]] = r
            elif kind == "de":
                rec["res"] = r
            else:
                rec["str"][kind] = r
    if b:
        b.cleanup()
    with open(cpath, "wb") as f:
        pickle.dump(cases, f)
    # keep the cache small: drop old entries
    entries = sorted((os.path.getmtime(os.path.join(WORK, "cache", x)), x) for x in os.listdir(os.path.join(WORK, "cache")))
    for _, x in entries[:-12]:
        try:
            os.remove(os.path.join(WORK, "cache", x))
        except OSError:
            pass
    return cases
