"""Instance universes U(S, d): the complete, compositional 'environment answer' alphabet of a compiled type
(DESIGN §2.4). Nothing is assumed valid or invalid by construction: every element is classified by the oracle.

gen(schema, defs, depth) -> list of (value, flags); flags mark provenance that some judges exclude:
  "zz"      an undeclared member was added
  "nullopt" null supplied for an optional, non-nullable member (typify represents it with Option)
  "seqobj"  an array supplied where an object is described (serde's positional struct form)
  "reqnull" a required member that admits null was omitted (Option<T> accepts absence)
  "mix"     members of two union branches merged (may hold members the matching branch does not declare)
"""
import itertools
import json

from .common import canon

ATOMS = [None, True, 0, "x", [], {}]

STR_FORMAT_EX = {
    "uuid": (["00000000-0000-0000-0000-000000000000", "f81d4fae-7dec-11d0-a765-00a0c91e6bf6"], ["not-a-uuid", ""]),
    "date": (["2020-02-29", "1999-12-31"], ["2020-13-01", "yesterday"]),
    "date-time": (["2020-01-01T00:00:00Z", "1999-12-31T23:59:59Z"], ["2020-01-01", "noon"]),
    "ip": (["127.0.0.1", "::1"], ["300.1.1.1", "ip"]),
    "ipv4": (["127.0.0.1", "10.0.0.255"], ["::1", "1.2.3"]),
    "ipv6": (["::1", "fe80::1"], ["127.0.0.1", "gggg::1"]),
    "time": (["03:04:05", "23:59:59.5Z"], ["25:00:00", "noon"]),
    "partial-date-time": (["2020-01-02T03:04:05", "1999-12-31T23:59:59.250"], ["2020-01-02 03:04:05", "noon"]),
    "duration": (["P1D", "PT0.5S"], ["1 day", "P"]),
    "uri": (["http://example.com/a?b=c", "HTTP://EXAMPLE.COM"], ["not a uri", ""]),
    "email": (["a@example.com", "A.B@EXAMPLE.COM"], ["nobody", "@"]),
    "hostname": (["example.com", "EXAMPLE.com."], ["-bad-", "a b"]),
    "regex": (["^[a-z]+$", "a|b"], ["(", "[a-"]),
}

INT_LIMITS = {
    "int8": (-2 ** 7, 2 ** 7 - 1), "uint8": (0, 2 ** 8 - 1), "int16": (-2 ** 15, 2 ** 15 - 1), "uint16": (0, 2 ** 16 - 1),
    "int32": (-2 ** 31, 2 ** 31 - 1), "uint32": (0, 2 ** 32 - 1), "int": (-2 ** 31, 2 ** 31 - 1), "uint": (0, 2 ** 32 - 1),
    "int64": (-2 ** 63, 2 ** 63 - 1), "uint64": (0, 2 ** 64 - 1),
}


_SEMANTIC = {"reqnull", "seqobj", "nullopt"}   # facts about (position, value): any provenance establishes them
_PROVENANCE = {"zz", "mix"}                     # facts about how the value was built: the cleanest provenance wins


def _dedup(items):
    seen = {}
    for v, f in items:
        k = canon(v) + "|" + type(v).__name__
        if k in seen:
            old = seen[k][1]
            seen[k] = (v, frozenset(((old | f) & _SEMANTIC) | ((old & f) & _PROVENANCE)))
        else:
            seen[k] = (v, frozenset(f))
    return list(seen.values())


def _chars(n, ch):
    return ch * n


def string_values(s):
    out = []
    fmt = s.get("format")
    mn, mx, pat = s.get("minLength"), s.get("maxLength"), s.get("pattern")
    if fmt in STR_FORMAT_EX:
        good, bad = STR_FORMAT_EX[fmt]
        return good + bad + ["x"]
    if mn is None and mx is None and pat is None:
        return ["", "x", "hello", "é"]
    lens = set()
    if mn is not None:
        lens |= {max(0, mn - 1), mn, mn + 1}
    if mx is not None:
        lens |= {max(0, mx - 1), mx, mx + 1}
    if not lens:
        lens = {0, 1, 3}
    for n in sorted(lens):
        out.append(_chars(n, "a"))
        if n > 0:
            out.append(_chars(n, "é"))           # 2-byte scalar values
            out.append(_chars(n, "\U0001F600"))  # 4-byte scalar values
            out.append("a" * (n - 1) + "B")      # breaks ^[a-z]+$ by one character
            out.append("a" * (n - 1) + "1")
    return out


def int_values(s):
    vals = {0, 1, -1, 2}
    for k in ("minimum", "maximum", "exclusiveMinimum", "exclusiveMaximum"):
        if isinstance(s.get(k), (int, float)):
            b = int(s[k])
            vals |= {b - 1, b, b + 1}
    fmt = s.get("format")
    if fmt in INT_LIMITS:
        lo, hi = INT_LIMITS[fmt]
        vals |= {lo - 1, lo, hi, hi + 1}
    else:
        vals |= {-2 ** 31 - 1, 2 ** 32, 2 ** 63 - 1, -2 ** 63}
    if s.get("multipleOf"):
        m = int(s["multipleOf"])
        vals |= {m, 2 * m, m + 1}
    # keep inside [i64::MIN-1, u64::MAX+1]: integers outside are an alphabet exclusion (§2.3)
    vals = {v for v in vals if -2 ** 63 <= v <= 2 ** 64 - 1}
    return sorted(vals) + [1.5]


def resolve(schema, defs):
    hops = 0
    while isinstance(schema, dict) and "$ref" in schema and len(schema) == 1 and hops < 10:
        name = schema["$ref"].split("/")[-1]
        schema = defs.get(name, {})
        hops += 1
    return schema


def gen(schema, defs, depth=2, cap=40):
    """Return deduplicated list of (value, flags)."""
    out = []

    def add(v, f=frozenset()):
        out.append((v, frozenset(f)))

    if schema is True or schema == {}:
        for a in ATOMS:
            add(a)
        add({"k": 1})
        add([1, "a"])
        add(1.5)
        return _dedup(out)
    if schema is False:
        for a in ATOMS:
            add(a)
        return _dedup(out)
    s = schema
    if "$ref" in s:
        name = s["$ref"].split("/")[-1]
        target = defs.get(name, {})
        if depth <= 0:
            # recursion horizon: atoms plus the smallest object/array
            for a in ATOMS:
                add(a)
            return _dedup(out)
        rest = {k: v for k, v in s.items() if k != "$ref"}
        res = gen(target, defs, depth - 1 if _is_recursive(name, defs) else depth, cap)
        if rest:
            res = res + gen(rest, defs, depth, cap)
        return _dedup(res)

    for a in ATOMS:
        add(a)

    if "enum" in s:
        for m in s["enum"]:
            add(m)
            if isinstance(m, str) and m:
                add(m.swapcase() if m.swapcase() != m else m + "_")
                add(m + "x")
            elif isinstance(m, bool):
                add(not m)
            elif isinstance(m, (int, float)):
                add(m + 1)
                if abs(m) < 2 ** 52:
                    add(m + 0.5)   # beyond 2^52 the sum is an integer-valued float again (a float-form integer, which the alphabet excludes)
    if "const" in s:
        add(s["const"])
        c = s["const"]
        if isinstance(c, str):
            add(c + "x")
            add(c.swapcase() if c.swapcase() != c else c + "_")
        elif isinstance(c, (int, float)) and not isinstance(c, bool):
            add(c + 1)

    types = s.get("type")
    tlist = types if isinstance(types, list) else ([types] if types else [])
    implied = set(tlist)
    if not tlist:
        if any(k in s for k in ("properties", "additionalProperties", "required", "patternProperties", "propertyNames")):
            implied.add("object")
        if any(k in s for k in ("items", "minItems", "maxItems", "uniqueItems")):
            implied.add("array")
        if any(k in s for k in ("minLength", "maxLength", "pattern")) or (s.get("format") in STR_FORMAT_EX):
            implied.add("string")
        if any(k in s for k in ("minimum", "maximum", "multipleOf")):
            implied.add("integer")

    if "string" in implied:
        for v in string_values(s):
            add(v)
    if "integer" in implied:
        for v in int_values(s):
            add(v)
    if "number" in implied:
        for v in (0, 1.5, -2.25, 100, 1e10):
            add(v)
    if "boolean" in implied:
        add(True)
        add(False)
    if "null" in implied:
        add(None)
    if "array" in implied:
        for v, f in _arrays(s, defs, depth, cap):
            add(v, f)
    if "object" in implied:
        for v, f in _objects(s, defs, depth, cap):
            add(v, f)
            if isinstance(v, dict) and v and "zz" not in f and len(v) <= 2:
                # serde's positional form for structs: only ever excluded, recorded for C05's alphabet rule
                add(list(v.values()), set(f) | {"seqobj"})

    if "object" in implied and "array" not in implied and not any(k in s for k in ("oneOf", "anyOf", "allOf", "not")):
        out = [(v, (f | {"seqobj"}) if isinstance(v, list) else f) for (v, f) in out]

    for kw in ("oneOf", "anyOf", "allOf"):
        if kw in s:
            branches = s[kw]
            parts = []
            base = {k: v for k, v in s.items() if k not in ("oneOf", "anyOf", "allOf", "title", "description", "default")}
            for b in branches:
                bb = b
                if isinstance(b, dict) and base and isinstance(resolve(b, defs), dict):
                    # siblings of the union apply to every branch (e.g. properties + oneOf)
                    bb = _shallow_merge(resolve(b, defs), base)
                u = gen(bb, defs, depth, cap)
                parts.append(u)
                out.extend(u)
            # cross-branch mixtures: member sets of two branches merged
            objs = [[(v, f) for v, f in p if isinstance(v, dict) and v][:6] for p in parts]
            for i, j in itertools.combinations(range(len(objs)), 2):
                for (a, fa) in objs[i][:4]:
                    for (b, fb) in objs[j][:4]:
                        # under allOf every member of the merged object is declared by some branch of the intersection; under a
                        # union it may be a member the matching branch does not declare (provenance flag "mix")
                        mixf = set() if kw == "allOf" else {"mix"}
                        m = dict(a)
                        m.update(b)
                        add(m, set(fa) | set(fb) | mixf)
                        m2 = dict(b)
                        m2.update(a)
                        add(m2, set(fa) | set(fb) | mixf)
    if "not" in s:
        out.extend(gen(s["not"], defs, depth, cap))
    return _dedup(out)


def _shallow_merge(a, b):
    m = dict(a)
    for k, v in b.items():
        if k == "properties" and isinstance(m.get(k), dict):
            mm = dict(m[k])
            mm.update(v)
            m[k] = mm
        elif k == "required" and isinstance(m.get(k), list):
            m[k] = sorted(set(m[k]) | set(v))
        elif k not in m:
            m[k] = v
    return m


def _is_recursive(name, defs, _seen=None):
    """does definition `name` reach itself through $refs?"""
    target = name
    stack = [defs.get(name, {})]
    seen = set()
    while stack:
        x = stack.pop()
        if isinstance(x, dict):
            if "$ref" in x:
                n = x["$ref"].split("/")[-1]
                if n == target:
                    return True
                if n not in seen:
                    seen.add(n)
                    stack.append(defs.get(n, {}))
            stack.extend(v for k, v in x.items() if k != "$ref")
        elif isinstance(x, list):
            stack.extend(x)
    return False


_VCACHE = {}


def _local_valid(schema, defs, v):
    """classification of a candidate against a sub-schema, only used to choose a covering subset of a nested
    universe (the verdict on whole instances is always the oracle's)"""
    from . import oracle
    k = canon([schema, sorted(defs) if defs else None])
    val = _VCACHE.get(k)
    if val is None:
        doc = {"allOf": [schema], "definitions": defs or {}}
        try:
            val = oracle.Oracle(doc).validator
        except Exception:
            val = False
        _VCACHE[k] = val
    if val is False:
        return True
    try:
        return val.is_valid(v)
    except Exception:
        return True


def _pick(univ, schema=None, defs=None, k_valid=2, k_invalid=10):
    """a covering subset of a nested universe: the first k_valid valid values (smallest first), every invalid
    non-atom up to k_invalid (boundary crossings, near-miss members, ...) and one atom of every JSON type."""
    vals = list(univ)
    if len(vals) <= k_valid + 4:
        return vals
    non_atoms = [x for x in vals if not _is_atom(x[0])]
    atoms = [x for x in vals if _is_atom(x[0])]
    if schema is None:
        return non_atoms[:k_valid + 1] + atoms
    good = [x for x in non_atoms if _local_valid(schema, defs, x[0])]
    bad = [x for x in non_atoms if not _local_valid(schema, defs, x[0])]
    good.sort(key=lambda vf: len(canon(vf[0])))
    return good[:k_valid] + bad[:k_invalid] + atoms


def _is_atom(v):
    return any(v is a or (v == a and type(v) == type(a)) for a in ATOMS)


def _arrays(s, defs, depth, cap):
    out = []
    items = s.get("items")
    mn, mx = s.get("minItems"), s.get("maxItems")
    if isinstance(items, list):
        slots = [gen(it, defs, depth - 1, cap) for it in items]
        reps = [_pick(u, items[i], defs) for i, u in enumerate(slots)]
        n = len(items)
        # exact arity: first representative everywhere, then deviate one slot at a time
        base = [r[0] if r else (None, frozenset()) for r in reps]
        firsts = [_first_valid_guess(items[i], defs, depth) for i in range(n)]
        basev = [f for f in firsts]
        out.append((list(basev), frozenset()))
        for i in range(n):
            for (v, f) in reps[i]:
                a = list(basev)
                a[i] = v
                out.append((a, f))
        # arity -1 / +1
        if n > 0:
            out.append((list(basev[:-1]), frozenset()))
        out.append((list(basev) + [0], frozenset()))
        out.append((list(basev) + [basev[-1] if basev else 0], frozenset()))
        ai = s.get("additionalItems")
        if isinstance(ai, dict):
            for (v, f) in _pick(gen(ai, defs, depth - 1, cap), ai, defs, 1, 3):
                out.append((list(basev) + [v], f))
        return out
    item_schema = items if items is not None else {}
    univ = _pick(gen(item_schema, defs, depth - 1, cap), item_schema, defs)
    first = _first_valid_guess(item_schema, defs, depth)
    lens = {0, 1, 2}
    for b in (mn, mx):
        if isinstance(b, int):
            lens |= {max(0, b - 1), b, b + 1}
    for n in sorted(lens):
        if n > 6:
            continue
        out.append(([first] * n, frozenset()))
        if n >= 1:
            for (v, f) in univ:
                a = [first] * n
                a[-1] = v
                out.append((a, f))
        if n >= 2:
            second = next(((v, f) for (v, f) in univ if canon(v) != canon(first) and not _is_atom(v)), None)
            if second is not None:
                out.append(([first] + [second[0]] * (n - 1), second[1]))
    return out


def _first_valid_guess(schema, defs, depth):
    """a value that is valid for the common shapes (only used to build surrounding structure; the oracle still
    classifies the whole instance)."""
    s = schema
    if s is True or s == {} or s is None:
        return 0
    if s is False:
        return None
    if "$ref" in s:
        if depth <= 0:
            return {}
        return _first_valid_guess(defs.get(s["$ref"].split("/")[-1], {}), defs, depth - 1)
    if "const" in s:
        return s["const"]
    if "enum" in s and s["enum"]:
        return s["enum"][0]
    for kw in ("oneOf", "anyOf"):
        if kw in s and s[kw]:
            return _first_valid_guess(s[kw][0], defs, depth)
    if "allOf" in s and s["allOf"]:
        vals = [_first_valid_guess(b, defs, depth) for b in s["allOf"]]
        if all(isinstance(v, dict) for v in vals):
            m = {}
            for v in vals:
                m.update(v)
            return m
        return vals[0]
    t = s.get("type")
    if isinstance(t, list):
        t = [x for x in t if x != "null"][0] if any(x != "null" for x in t) else "null"
    if t is None:
        if "properties" in s or "additionalProperties" in s or "required" in s:
            t = "object"
        elif "items" in s:
            t = "array"
        elif "minLength" in s or "maxLength" in s or "pattern" in s:
            t = "string"
        else:
            return 0
    if t == "string":
        fmt = s.get("format")
        if fmt in STR_FORMAT_EX:
            return STR_FORMAT_EX[fmt][0][0]
        n = s.get("minLength", 0)
        if "maxLength" in s:
            n = max(n, min(1, s["maxLength"]))
        else:
            n = max(n, 1)
        return "a" * n
    if t == "integer":
        lo = s.get("minimum")
        if lo is None and "exclusiveMinimum" in s:
            lo = s["exclusiveMinimum"] + 1
        hi = s.get("maximum")
        v = 1
        if lo is not None and v < lo:
            v = int(lo)
        if hi is not None and v > hi:
            v = int(hi)
        fmt = s.get("format")
        if fmt in INT_LIMITS:
            v = min(max(v, INT_LIMITS[fmt][0]), INT_LIMITS[fmt][1])
        return v
    if t == "number":
        return 1.5
    if t == "boolean":
        return True
    if t == "null":
        return None
    if t == "array":
        items = s.get("items")
        if isinstance(items, list):
            return [_first_valid_guess(i, defs, depth - 1) for i in items]
        n = s.get("minItems", 1 if items is not None else 0)
        if s.get("uniqueItems") and n > 1:
            return [_first_valid_guess(items or {}, defs, depth - 1)][:1]
        return [_first_valid_guess(items or {}, defs, depth - 1)] * n
    if t == "object":
        o = {}
        props = s.get("properties", {})
        for r in s.get("required", []):
            o[r] = _first_valid_guess(props.get(r, {}), defs, depth - 1)
        return o
    return 0


def _objects(s, defs, depth, cap, k_dev=1):
    out = []
    props = s.get("properties", {}) or {}
    names = sorted(props)
    req = set(s.get("required", []))
    ap = s.get("additionalProperties")
    pp = s.get("patternProperties")
    if len(names) > 4:
        names = names[:4]
    univs = {n: _pick(gen(props[n], defs, depth - 1, cap), props[n], defs) for n in names}
    firsts = {n: _first_valid_guess(props[n], defs, depth - 1) for n in names}
    nullable = {n: _admits_null(props[n], defs) for n in names}
    # every subset of declared members, all at their first exemplar
    for r in range(len(names) + 1):
        for sub in itertools.combinations(names, r):
            base = {n: firsts[n] for n in sub}
            # a required member that admits null is represented by Option<T>, for which serde accepts absence
            fl = {"reqnull"} if any(n in req and nullable[n] and n not in sub for n in names) else set()
            out.append((base, frozenset(fl)))
            out.append((dict(base, zz=0), frozenset(fl | {"zz"})))
    # deviations: full member set and required-only set, one member at a time takes every other value
    for sub in {tuple(names), tuple(n for n in names if n in req)}:
        for n in sub:
            for (v, f) in univs[n]:
                o = {m: firsts[m] for m in sub}
                o[n] = v
                fl = set(f)
                if v is None and n not in req and not nullable[n]:
                    fl.add("nullopt")
                out.append((o, frozenset(fl)))
    # additionalProperties / patternProperties as schema: extra members drawn from that universe
    extra_schema = None
    if isinstance(ap, dict) and ap != {}:
        extra_schema = ap
    if isinstance(pp, dict) and pp:
        extra_schema = list(pp.values())[0]
    if extra_schema is not None:
        eu = _pick(gen(extra_schema, defs, depth - 1, cap), extra_schema, defs)
        ef = _first_valid_guess(extra_schema, defs, depth - 1)
        basefull = {n: firsts[n] for n in names if n in req}
        out.append((dict(basefull, k1=ef), frozenset()))
        out.append((dict(basefull, k1=ef, k2=ef), frozenset()))
        for (v, f) in eu:
            out.append((dict(basefull, k1=v), f))
    pn = s.get("propertyNames")
    if isinstance(pn, dict):
        vs = [v for (v, f) in gen(dict(pn, type="string"), defs, 0, cap) if isinstance(v, str)]
        val = _first_valid_guess(ap if isinstance(ap, dict) else {}, defs, depth - 1)
        for key in vs[:8]:
            out.append(({key: val}, frozenset()))
    return out


def _admits_null(schema, defs):
    s = resolve(schema, defs)
    if s is True or s == {}:
        return True
    if not isinstance(s, dict):
        return False
    t = s.get("type")
    if t == "null" or (isinstance(t, list) and "null" in t):
        return True
    if "enum" in s and None in s["enum"]:
        return True
    if "const" in s and s["const"] is None:
        return True
    for kw in ("oneOf", "anyOf"):
        if kw in s and any(_admits_null(b, defs) for b in s[kw]):
            return True
    if t is None and not any(k in s for k in ("enum", "const", "oneOf", "anyOf", "allOf", "$ref", "not")):
        return True
    return False


def universe(doc, defname, depth=2, cap=40, limit=600):
    defs = doc.get("definitions", {})
    if defname is None:
        root = {k: v for k, v in doc.items() if k != "definitions"}
        u = gen(root, defs, depth, cap)
    else:
        u = gen({"$ref": "#/definitions/" + defname}, defs, depth, cap)
    u = sorted(u, key=lambda vf: (len(canon(vf[0])), canon(vf[0])))
    return u[:limit], len(u) > limit
