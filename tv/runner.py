"""Common driver for every check: enumerate -> execute on the implementation -> judge -> evidence / replay /
known findings / exit code (DESIGN §2.5, §5.4)."""
import importlib
import json
import os
import sys
import time
import traceback

from .common import EVIDENCE, REPLAYS, VERIF, MachineryError, canon, ensure_dir, key_of, log

FINDINGS_FILE = os.path.join(VERIF, "known-findings.json")


class Violation:
    def __init__(self, key, mode, title, case, expected=None, observed=None, features=None, items=None):
        self.key = key
        self.mode = mode
        self.title = title
        self.case = case
        self.expected = expected
        self.observed = observed
        self.features = features or {}
        self.items = items  # the specific failing inputs of this case (instances, probe strings, ...), for known-finding matching

    def ident(self):
        return "%s:%s" % (self.key, self.mode)


class Result:
    def __init__(self):
        self.violations = []
        self.states = 0            # distinct explored cases / canonical states
        self.transitions = 0       # API calls + compile verdicts + run-time probes executed
        self.evaluations = 0
        self.nontrivial = 0        # distinct non-trivial cases by the property's rule (measured)
        self.rule = ""
        self.samples = []
        self.extra = {}            # extra coverage keys
        self.assumptions = []
        self.exhaustive = True
        self.bound = ""


def load_findings():
    if not os.path.exists(FINDINGS_FILE) or os.environ.get("VERIF_IGNORE_FINDINGS"):
        return []   # VERIF_IGNORE_FINDINGS=1 (debugging aid): report the known findings as violations, e.g. to obtain their replay files
    with open(FINDINGS_FILE) as f:
        return json.load(f).get("findings", [])


def _subobjects(x):
    if isinstance(x, dict):
        yield x
        for y in x.values():
            yield from _subobjects(y)
    elif isinstance(x, list):
        for y in x:
            yield from _subobjects(y)


def _pred(p, item):
    """tiny predicate language over one failing input (known findings name the specific inputs that fail)"""
    if "or" in p:
        return any(_pred(q, item) for q in p["or"])
    if "any_subobject" in p:
        q = p["any_subobject"]
        for d in _subobjects(item):
            if all(k in d and d[k] == val for k, val in q.get("eq", {}).items()) and all(k in d for k in q.get("has", [])) \
                    and all(k in d and d[k] in vals for k, vals in q.get("in", {}).items()) \
                    and (not q.get("has_any") or any(k in d for k in q["has_any"])) \
                    and not any(k in d for k in q.get("lacks", [])):
                return True
        return False
    if "any_value" in p:
        want = p["any_value"]
        def walk(x):
            if x == want and type(x) == type(want):
                return True
            if isinstance(x, dict):
                return any(walk(y) for y in x.values())
            if isinstance(x, list):
                return any(walk(y) for y in x)
            return False
        return walk(item)
    if "equals" in p:
        return item == p["equals"]
    if "in" in p:
        return item in p["in"]
    return False


def finding_matches(f, prop, v):
    if f.get("property") != prop:
        return False
    modes = f.get("modes") or [f.get("mode")]
    if v.mode not in modes:
        return False
    m = f.get("match", {})
    if "all_items" in m:
        # every failing input of the case must be one the finding names; anything else stays a VIOLATION
        if not v.items or not all(_pred(m["all_items"], it) for it in v.items):
            return False
    if "keys" in m and v.key in m["keys"]:
        return True
    feats = m.get("features")
    if feats:
        alts = feats if isinstance(feats, list) else [feats]
        for alt in alts:
            if alt and all(v.features.get(k) == val for k, val in alt.items()):
                return True
    return False


def _finding_applies(f, prop, v):
    """mode and features of the finding fit the violation (its item predicate is judged per item by the caller)"""
    if f.get("property") != prop or v.mode not in (f.get("modes") or [f.get("mode")]):
        return False
    m = f.get("match", {})
    feats = m.get("features")
    if not feats or "all_items" not in m:
        return False
    alts = feats if isinstance(feats, list) else [feats]
    return any(alt and all(v.features.get(k) == val for k, val in alt.items()) for alt in alts)


def covered_by_several(findings, prop, v):
    """one case may fail through two listed findings at once (e.g. an enum that is hit by a tagging defect on some inputs and by a
    naming defect on others): it is known iff EVERY failing input is named by some applicable finding's item predicate.
    Returns the list of findings used, or None."""
    if not v.items:
        return None
    app = [f for f in findings if _finding_applies(f, prop, v)]
    used = []
    for it in v.items:
        hit = next((f for f in app if _pred(f["match"]["all_items"], it)), None)
        if hit is None:
            return None
        if hit not in used:
            used.append(hit)
    return used if len(used) > 1 else None


def write_evidence(prop, tier, seed, res, wall, n_viol, level="model_checking"):
    ensure_dir(EVIDENCE)
    cov = {
        "states": int(res.states), "transitions": int(res.transitions),
        "traces_validated_against_impl": int(res.states),
        "evaluations": int(res.evaluations or res.transitions), "distinct_nontrivial": int(res.nontrivial),
        "rule": res.rule, "samples": res.samples[:5] if res.samples else ["<none>"],
        "exhaustive": bool(res.exhaustive), "bound": res.bound,
    }
    cov.update(res.extra)
    ev = {"property_id": prop, "tier": tier, "seed": int(seed), "level": level, "coverage": cov,
          "assumptions": res.assumptions, "wall_s": wall, "violations": int(n_viol)}
    with open(os.path.join(EVIDENCE, prop + ".json"), "w") as f:
        json.dump(ev, f, indent=1, sort_keys=True, ensure_ascii=False)
        f.write("\n")


def report(prop, violations):
    """Print KNOWN-FINDING / VIOLATION lines, write replay files. Returns number of unlisted violations."""
    findings = load_findings()
    matched = {}
    unlisted = []
    for v in violations:
        hit = None
        for f in findings:
            if finding_matches(f, prop, v):
                hit = f
                break
        if hit:
            matched.setdefault(hit["id"], [hit, 0])[1] += 1
            continue
        several = covered_by_several(findings, prop, v)
        if several:
            for f in several:
                matched.setdefault(f["id"], [f, 0])[1] += 1
        else:
            unlisted.append(v)
    for fid, (f, n) in sorted(matched.items()):
        print("KNOWN-FINDING: property=%s %s — %s (%d cases in this run)" % (prop, fid, f.get("title", ""), n))
    rdir = ensure_dir(os.path.join(REPLAYS, prop))
    seen = set()
    shown = 0
    for v in unlisted:
        if v.ident() in seen:
            continue
        seen.add(v.ident())
        path = os.path.join(rdir, "%s-%s.json" % (v.key, "".join(ch if ch.isalnum() else "_" for ch in v.mode)))
        with open(path, "w") as f:
            json.dump({"property": prop, "key": v.key, "mode": v.mode, "title": v.title, "features": v.features,
                       "case": v.case, "expected": v.expected, "observed": v.observed}, f, indent=1, ensure_ascii=False)
        if shown < 200:
            print("VIOLATION property=%s replay=%s  # %s: %s" % (prop, path, v.mode, v.title))
        shown += 1
    if shown > 200:
        print("... %d further violations (replay files written)" % (shown - 200))
    return len(seen)


def main(argv=None):
    argv = argv or sys.argv[1:]
    if not argv:
        print("usage: check <Cxx> [--tier quick|thorough] [--replay file]")
        return 2
    prop = argv[0]
    tier = os.environ.get("VERIF_TIER", "quick")
    replay = None
    i = 1
    while i < len(argv):
        if argv[i] == "--tier":
            tier = argv[i + 1]
            i += 2
        elif argv[i] == "--replay":
            replay = argv[i + 1]
            i += 2
        else:
            i += 1
    seed = int(os.environ.get("VERIF_SEED", "0") or 0)
    t0 = time.time()
    try:
        mod = importlib.import_module("tv.props." + prop)
        if replay:
            with open(replay) as f:
                rp = json.load(f)
            a = mod.execute([rp["case"]], tier, seed)
            b = mod.execute([rp["case"]], tier, seed)
            ida = sorted(v.ident() for v in a.violations)
            idb = sorted(v.ident() for v in b.violations)
            oa = sorted(canon(v.observed) for v in a.violations)
            ob = sorted(canon(v.observed) for v in b.violations)
            if ida != idb or oa != ob:
                print("replay diverged between two runs: %s vs %s" % (ida, idb))
                return 2
            hits = [v for v in a.violations if v.key == rp["key"] and v.mode == rp["mode"]]
            for v in a.violations:
                print("replayed: %s %s %s\n  expected: %s\n  observed: %s" % (v.key, v.mode, v.title, canon(v.expected)[:600], canon(v.observed)[:600]))
            if hits:
                print("VIOLATION property=%s replay=%s" % (prop, replay))
                return 1
            print("replay: violation not reproduced on this tree")
            return 0
        import shutil
        shutil.rmtree(os.path.join(REPLAYS, prop), ignore_errors=True)   # replay files of earlier runs would be stale
        cases = mod.cases(tier, seed)
        res = mod.execute(cases, tier, seed)
        n = report(prop, res.violations)
        wall = round(time.time() - t0, 2)
        write_evidence(prop, tier, seed, res, wall, n)
        log("%s %s: states=%d transitions=%d nontrivial=%d violations(unlisted)=%d total_viol=%d wall=%.1fs" %
            (prop, tier, res.states, res.transitions, res.nontrivial, n, len(res.violations), wall))
        return 1 if n else 0
    except MachineryError as e:
        log("MACHINERY ERROR in %s: %s" % (prop, e))
        return 2
    except Exception:
        log("MACHINERY ERROR (exception) in %s:\n%s" % (prop, traceback.format_exc()))
        return 2
