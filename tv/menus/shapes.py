"""The schema alphabets (DESIGN §3): leaf menu L, composite menu K, context menu X, and their products.

Every entry carries flags:
  ff   inside C02/C03's faithful fragment (every constrained node has an explicit type or is a union/$ref)
  enf  built only from constructs typify enforces (C05)
  strish  wire form is always a JSON string (C11)
"""
import copy
import json


def L(id, schema, ff=True, enf=False, strish=False, **kw):
    d = {"id": id, "schema": schema, "ff": ff, "enf": enf, "strish": strish}
    d.update(kw)
    return d


LEAVES = [
    L("string", {"type": "string"}, enf=True, strish=True),
    L("integer", {"type": "integer"}, enf=True),
    L("number", {"type": "number"}, enf=True),
    L("boolean", {"type": "boolean"}, enf=True),
    L("null", {"type": "null"}, enf=True),
    L("any", {}, enf=False),
    # integer formats the way schemars writes them
    L("u8", {"type": "integer", "format": "uint8", "minimum": 0}),
    L("i8", {"type": "integer", "format": "int8"}),
    L("u16", {"type": "integer", "format": "uint16", "minimum": 0}),
    L("i32", {"type": "integer", "format": "int32"}),
    L("u32", {"type": "integer", "format": "uint32", "minimum": 0}),
    L("i64", {"type": "integer", "format": "int64"}),
    L("u64", {"type": "integer", "format": "uint64", "minimum": 0}),
    L("nz32", {"type": "integer", "format": "uint32", "minimum": 1}),
    L("int_min1", {"type": "integer", "minimum": 1}),
    L("int_min0", {"type": "integer", "minimum": 0}),
    L("int_max255", {"type": "integer", "maximum": 255}),
    L("int_range", {"type": "integer", "minimum": 0, "maximum": 255}),
    L("int_unkfmt", {"type": "integer", "format": "wibble"}),
    # two-sided ranges whose maximum is some T::MAX while the minimum lies below T::MIN (and the mirror image)
    L("int_m1_255", {"type": "integer", "minimum": -1, "maximum": 255}),
    L("int_neg_32767", {"type": "integer", "minimum": -100000, "maximum": 32767}),
    L("int_m128_300", {"type": "integer", "minimum": -128, "maximum": 300}),
    L("int_0_u32max", {"type": "integer", "minimum": 0, "maximum": 4294967295}),
    L("int_excl", {"type": "integer", "exclusiveMinimum": -2, "exclusiveMaximum": 256}),
    L("f32", {"type": "number", "format": "float"}),
    L("f64", {"type": "number", "format": "double"}),
    # string formats
    L("uuid", {"type": "string", "format": "uuid"}, strish=True),
    L("date", {"type": "string", "format": "date"}, strish=True),
    L("datetime", {"type": "string", "format": "date-time"}, strish=True),
    L("ip", {"type": "string", "format": "ip"}, strish=True),
    L("ipv4", {"type": "string", "format": "ipv4"}, strish=True),
    L("ipv6", {"type": "string", "format": "ipv6"}, strish=True),
    L("str_unkfmt", {"type": "string", "format": "wibble"}, strish=True, enf=True),
    # the remaining format names of the specification and of schemars' output (typify reads them as plain strings): the values a native
    # type of that name would print differently (T / space, zone suffixes, case) are in the universe
    L("fmt_time", {"type": "string", "format": "time"}, strish=True),
    L("fmt_pdt", {"type": "string", "format": "partial-date-time"}, strish=True),
    L("fmt_duration", {"type": "string", "format": "duration"}, strish=True),
    L("fmt_uri", {"type": "string", "format": "uri"}, strish=True),
    L("fmt_email", {"type": "string", "format": "email"}, strish=True),
    L("fmt_hostname", {"type": "string", "format": "hostname"}, strish=True),
    L("fmt_regex", {"type": "string", "format": "regex"}, strish=True),
    # string constraints
    L("str_min2", {"type": "string", "minLength": 2}, enf=True, strish=True),
    L("str_max2", {"type": "string", "maxLength": 2}, enf=True, strish=True),
    L("str_1_2", {"type": "string", "minLength": 1, "maxLength": 2}, enf=True, strish=True),
    L("str_0_3", {"type": "string", "minLength": 0, "maxLength": 3}, enf=True, strish=True),
    L("str_pat", {"type": "string", "pattern": "^[a-z]+$"}, enf=True, strish=True),
    L("str_pat_max", {"type": "string", "pattern": "^[a-z]+$", "maxLength": 3}, enf=True, strish=True),
    # string enums
    L("enum_ab", {"type": "string", "enum": ["a", "b"]}, enf=True, strish=True),
    L("enum_odd", {"type": "string", "enum": ["A-b", "c_D", "1x", ""]}, enf=True, strish=True),
    L("enum_case_pair", {"type": "string", "enum": ["utf8", "base64Url", "base64url", "hex"]}, enf=True, strish=True),   # two members differ only in case, their identifiers do not collide
    L("enum_case", {"type": "string", "enum": ["Foo", "foo", "FOO"]}, enf=True, strish=True),
    L("enum_kw2", {"type": "string", "enum": ["Self", "async", "crate", "super", "fn", "r#x", "_"]}, enf=True, strish=True),   # keywords whose identifier only gains a trailing underscore (no collision among them)
    L("enum_kw", {"type": "string", "enum": ["type", "self", "Self", "ref"]}, enf=True, strish=True),
    L("enum_one", {"type": "string", "enum": ["only"]}, enf=True, strish=True),
    L("enum_collide", {"type": "string", "enum": ["Foo_Bar", "FooBar", "Content-Type", "ContentType"]}, enf=True, strish=True),   # identifiers collide: fallback naming
    L("enum_collide_nonadjacent", {"type": "string", "enum": ["A", "B", "C", "A+", "B+"]}, enf=True, strish=True),   # colliding identifiers that are not neighbours in the list
    L("enum_collide_hard", {"type": "string", "enum": ["a_b", "a-b"]}, enf=True, strish=True),   # identifiers still collide after the fallback pass
    # members with the characters that Rust's Debug / string-literal syntax escapes (quote, backslash, control characters, non-printable
    # and combining scalar values) and printf / format-string metacharacters
    L("enum_escapes", {"type": "string", "enum": ["say \"hi\"", "back\\slash", "tab\there", "nl\nx", "nul\u0000x", "bell\u0007", "e\u0301", "\u00a0x", "'q'", "100%", "$d", "#[k]"]},
      enf=True, strish=True),
    L("enum_brace", {"type": "string", "enum": ["{x}", "a}", "{{", "%s {}"]}, enf=True, strish=True),
    L("enum_excl", {"type": "string", "enum": ["a", "bbb"], "maxLength": 2}, enf=True, strish=True),
    # enumerated strings that also name a format typify maps to a native type: membership is by exact text, not by the format's notion of equality
    L("enum_fmt_uuid", {"type": "string", "format": "uuid", "enum": ["00000000-0000-0000-0000-000000000000", "f81d4fae-7dec-11d0-a765-00a0c91e6bf6"]}, enf=True, strish=True),
    L("enum_fmt_ipv6", {"type": "string", "format": "ipv6", "enum": ["::1", "fe80::1"]}, enf=True, strish=True),
    L("enum_fmt_ip", {"type": "string", "format": "ip", "enum": ["127.0.0.1", "::1"]}, enf=True, strish=True),
    L("enum_fmt_date", {"type": "string", "format": "date", "enum": ["2020-02-29", "1999-12-31"]}, enf=True, strish=True),
    # enumerated strings under length bounds where byte length and character count fall on different sides of a bound
    L("enum_mb_len", {"type": "string", "minLength": 2, "maxLength": 4, "enum": ["\u00e9", "ab", "caf\u00e9", "mat\u00e9", "\u65e5\u672c\u8a9e\u6587", "\u65e5\u672c\u8a9e\u6587\u5b57", "soda", "toolong"]},
      enf=True, strish=True),
    L("enum_mb", {"type": "string", "enum": ["éé", "abc"], "maxLength": 2}, enf=True, strish=True),
    L("enum_notype", {"enum": ["a", "b"]}, enf=True, strish=True),
    # typed non-string enums
    L("enum_int", {"type": "integer", "enum": [1, 2]}, enf=True),
    L("enum_bool", {"type": "boolean", "enum": [True]}, enf=True),
    L("enum_u64", {"type": "integer", "format": "uint64", "minimum": 0, "enum": [0, 7, 18446744073709551615]}, enf=True),
    L("enum_i64neg", {"type": "integer", "format": "int64", "enum": [-9223372036854775808, -1, 9223372036854775807]}, enf=True),
    L("enum_num", {"type": "number", "enum": [1.5, 2.5]}, enf=True),
    # untyped enums
    L("enum_strnull", {"enum": ["a", "b", None]}, strish=False),
    # {"enum": [1, "a"]} (untyped enum over several JSON types) is outside the supported fragment: convert_unknown_enum has an
    # explicit panic!("multiple implied types for an un-typed enum") arm, like the todo!()/unimplemented!() arms it is excluded
    # not enum (outside C02's fragment; C05 deny lists, C01, C11)
    L("not_enum_str", {"type": "string", "not": {"enum": ["a", "b"]}}, ff=False, enf=True, strish=True),
    L("not_enum_untyped", {"not": {"enum": ["a"]}}, ff=False, strish=True),
    # const
    L("const_str", {"type": "string", "const": "a"}, ff=False, strish=True),
    L("const_untyped", {"const": "a"}, ff=False),
    # type-less validation (typify's documented heuristic; outside faithful fragment)
    L("maxlen_notype", {"maxLength": 2}, ff=False),
    L("multi_type", {"type": ["string", "integer"]}),
    L("int_or_num", {"type": ["integer", "number"]}, ff=False),
]
LEAF = {l["id"]: l for l in LEAVES}

REDUCED_LEAVES = ["string", "integer", "boolean", "u8", "str_max2", "enum_ab", "uuid", "any"]
QUICK_LEAVES = ["string", "integer", "number", "boolean", "null", "any", "u8", "i64", "nz32", "int_min0", "int_max255", "uuid",
                "date", "str_1_2", "str_0_3", "str_pat_max", "enum_ab", "enum_odd", "enum_excl", "enum_mb", "enum_int", "enum_u64", "enum_bool", "enum_strnull",
                "multi_type"]


def obj(props, required=(), **extra):
    d = {"type": "object", "properties": props}
    if required:
        d["required"] = list(required)
    d.update(extra)
    return d


INT = {"type": "integer"}
STR = {"type": "string"}
BOOL = {"type": "boolean"}


def composites(leaf):
    """Composite menu K instantiated with one leaf schema (a dict with id/schema/flags). Returns list of L-style dicts."""
    s = leaf["schema"]
    ff, enf = leaf["ff"], leaf["enf"]
    lid = leaf["id"]
    out = []

    def K(kid, schema, ff_=True, enf_=True, **kw):
        out.append(L("%s(%s)" % (kid, lid), schema, ff=ff and ff_, enf=enf and enf_, **kw))

    K("struct_req", obj({"a": s}, ["a"]))
    K("struct_opt", obj({"a": s}))
    K("struct_2", obj({"a": s, "b": INT}, ["a"]))
    K("struct_closed", obj({"a": s, "b": INT}, ["a"], additionalProperties=False))
    K("struct_aptrue", obj({"a": s}, ["a"], additionalProperties=True), enf_=False)
    K("struct_apany", obj({"a": s}, ["a"], additionalProperties={}), enf_=False)
    K("struct_apT", obj({"b": INT}, ["b"], additionalProperties=s), enf_=False)
    K("struct_opt_apT", obj({"a": s}, additionalProperties=INT), enf_=False)       # no required member next to a flattened typed map
    K("struct_dflt_apT", obj({"b": {"type": "integer", "default": 7}}, additionalProperties=s), enf_=False)
    K("struct_default", obj({"a": s, "b": {"type": "integer", "default": 7}}, ["a"]))
    K("map", {"type": "object", "additionalProperties": s}, enf_=False)
    K("map_pat", {"type": "object", "patternProperties": {"^[a-z]+$": s}, "additionalProperties": False}, ff_=False, enf_=False)
    K("vec", {"type": "array", "items": s})
    K("set", {"type": "array", "items": s, "uniqueItems": True}, enf_=False)   # valid documents (distinct items) must be accepted and round-trip; uniqueness itself is not enforced (C05)
    K("tuple2", {"type": "array", "items": [s, INT], "minItems": 2, "maxItems": 2})
    K("tuple1", {"type": "array", "items": [s], "minItems": 1, "maxItems": 1})
    K("array2", {"type": "array", "items": s, "minItems": 2, "maxItems": 2})
    K("tuple_under", {"type": "array", "items": [s], "additionalItems": INT, "minItems": 2, "maxItems": 2})
    K("oneof_null", {"oneOf": [s, {"type": "null"}]})
    K("anyof_null", {"anyOf": [s, {"type": "null"}]})
    if isinstance(s.get("type"), str) and s.get("type") != "null":
        tn = dict(s, type=[s["type"], "null"])
        if "enum" in tn:
            tn["enum"] = list(tn["enum"]) + [None]   # keep the schema coherent: the null the type admits is a member
        K("type_null", tn)
    K("allof1", {"allOf": [s]})
    K("oneof1", {"oneOf": [s]})
    # oneOf in the four serde tagging shapes, leaf as payload
    K("ext", {"oneOf": [{"type": "string", "enum": ["U"]},
                        obj({"N": s}, ["N"], additionalProperties=False),
                        obj({"S": obj({"x": s, "y": INT}, ["x"])}, ["S"], additionalProperties=False)]})
    K("ext_nt_closed", {"oneOf": [obj({"N": s}, ["N"], additionalProperties=False),
                                  obj({"S": obj({"x": INT, "y": INT}, ["x"], additionalProperties=False)}, ["S"], additionalProperties=False)]})
    K("ext_closed_nt", {"oneOf": [obj({"S": obj({"x": INT, "y": INT}, ["x"], additionalProperties=False)}, ["S"], additionalProperties=False),
                                  obj({"N": s}, ["N"], additionalProperties=False)]})
    K("ext_tuple", {"oneOf": [obj({"T": {"type": "array", "items": [s, INT], "minItems": 2, "maxItems": 2}}, ["T"], additionalProperties=False),
                              obj({"N": INT}, ["N"], additionalProperties=False)]})
    K("int_tag", {"oneOf": [obj({"t": {"type": "string", "enum": ["A"]}, "x": s}, ["t", "x"]),
                            obj({"t": {"type": "string", "enum": ["B"]}, "y": INT}, ["t"]),
                            obj({"t": {"type": "string", "enum": ["U"]}}, ["t"])]})
    K("adj", {"oneOf": [obj({"t": {"type": "string", "enum": ["A"]}, "c": s}, ["t", "c"]),
                        obj({"t": {"type": "string", "enum": ["B"]}, "c": obj({"x": INT}, ["x"])}, ["t", "c"]),
                        obj({"t": {"type": "string", "enum": ["U"]}}, ["t"])]})
    K("untagged_obj", {"oneOf": [obj({"p": s}, ["p"], additionalProperties=False), obj({"q": INT}, ["q"], additionalProperties=False)]})
    K("anyof_excl", {"anyOf": [obj({"p": s}, ["p"], additionalProperties=False), obj({"q": INT}, ["q"], additionalProperties=False)]})
    K("allof_obj", {"allOf": [obj({"a": s}, ["a"]), obj({"b": INT})]})
    return out


SOLO_COMPOSITES = [
    L("obj_bare", {"type": "object"}, enf=False),
    L("struct_empty_closed", {"type": "object", "additionalProperties": False}, enf=True),
    L("struct_req_unspec", {"type": "object", "required": ["x"]}, enf=True),
    L("map_names", {"type": "object", "additionalProperties": INT, "propertyNames": {"type": "string", "pattern": "^[a-z]+$"}}, ff=False),
    L("array_bare", {"type": "array"}),
    L("untagged_scalar", {"oneOf": [STR, INT]}, enf=True),
    L("untagged_scalar3", {"oneOf": [BOOL, INT, {"type": "array", "items": STR}]}, enf=True),
    L("untagged_str_obj", {"oneOf": [STR, obj({"a": INT}, ["a"])]}, enf=True),
    L("obj_array_type", {"type": ["object", "array"]}, ff=False),
    L("ext_units", {"oneOf": [{"type": "string", "enum": ["A"]}, {"type": "string", "enum": ["B", "C"]}]}, enf=True, strish=True),
    L("int_units", {"oneOf": [obj({"kind": {"type": "string", "enum": ["idle"]}}, ["kind"]), obj({"kind": {"type": "string", "enum": ["running"]}}, ["kind"]),
                              obj({"kind": {"type": "string", "enum": ["done"]}}, ["kind"])]}, enf=True),
    L("ext_const_units", {"oneOf": [{"type": "string", "const": "A"}, {"type": "string", "const": "B"}]}, ff=False, strish=True),
    L("int_tag_const", {"oneOf": [obj({"k": {"const": "a"}, "x": INT}, ["k", "x"]), obj({"k": {"const": "b"}}, ["k"])]}, ff=False),
    L("adj_closed", {"oneOf": [obj({"t": {"type": "string", "enum": ["A"]}, "x": INT}, ["t", "x"], additionalProperties=False),
                               obj({"t": {"type": "string", "enum": ["B"]}}, ["t"], additionalProperties=False)]}, enf=True),
    L("int_tag_closed", {"oneOf": [obj({"t": {"type": "string", "enum": ["A"]}, "x": INT, "y": STR}, ["t", "x"], additionalProperties=False),
                                   obj({"t": {"type": "string", "enum": ["B"]}, "z": INT}, ["t"], additionalProperties=False),
                                   obj({"t": {"type": "string", "enum": ["C"]}}, ["t"], additionalProperties=False)]}, enf=True),
    # several properties qualify as the internal tag (constant, required, pairwise distinct): the choice must be a function of the schema
    L("int_tag_two_candidates", {"oneOf": [obj({"kind": {"type": "string", "enum": ["round"]}, "shape": {"type": "string", "enum": ["circle"]}, "radius": INT}, ["kind", "shape", "radius"]),
                                           obj({"kind": {"type": "string", "enum": ["angular"]}, "shape": {"type": "string", "enum": ["square"]}, "side": INT}, ["kind", "shape", "side"])]}, enf=True),
    # the same with the tag written as `const` (outside tag inference typify drops `const`, so a failed inference leaves a plain String)
    L("int_tag_two_candidates_const", {"oneOf": [obj({"kind": {"type": "string", "const": "circle"}, "outline": {"type": "string", "enum": ["round"]}, "radius": INT}, ["kind", "outline", "radius"]),
                                                 obj({"kind": {"type": "string", "const": "square"}, "outline": {"type": "string", "enum": ["angular"]}, "side": INT}, ["kind", "outline", "side"])]}, enf=True),
    L("int_tag_typed_const", {"oneOf": [obj({"kind": {"type": "string", "const": "circle"}, "radius": INT}, ["kind", "radius"]),
                                  obj({"kind": {"type": "string", "const": "square"}, "side": INT}, ["kind", "side"])]}, enf=True),
    L("int_tag_three_candidates", {"oneOf": [obj({"zeta": {"type": "string", "enum": ["z1"]}, "alpha": {"type": "string", "enum": ["a1"]}, "mid": {"type": "string", "enum": ["m1"]}}, ["zeta", "alpha", "mid"]),
                                             obj({"zeta": {"type": "string", "enum": ["z2"]}, "alpha": {"type": "string", "enum": ["a2"]}, "mid": {"type": "string", "enum": ["m2"]}, "v": INT},
                                                 ["zeta", "alpha", "mid"])]}, enf=True),
    L("adj_two_candidates", {"oneOf": [obj({"t": {"type": "string", "enum": ["A"]}, "u": {"type": "string", "enum": ["X"]}, "c": INT}, ["t", "u", "c"]),
                                       obj({"t": {"type": "string", "enum": ["B"]}, "u": {"type": "string", "enum": ["Y"]}, "c": STR}, ["t", "u", "c"])]}, enf=True),
    # near-misses of the tagged forms: a "tag" with two values, a one-property variant object that admits further (typed) members or
    # bounds its member count: none of these is the serde tagging shape, so they must not be read as one
    L("int_tag_multi", {"oneOf": [obj({"t": {"type": "string", "enum": ["a", "b"]}, "x": INT}, ["t", "x"]), obj({"t": {"type": "string", "enum": ["c"]}, "y": STR}, ["t"])]}),
    L("ext_like_apT", {"oneOf": [obj({"V": INT}, ["V"], additionalProperties=INT), {"type": "string", "enum": ["U"]}]}, enf=False),
    L("ext_like_maxprops", {"oneOf": [dict(obj({"V": INT}, ["V"]), maxProperties=1), {"type": "string", "enum": ["U"]}]}, enf=False),
    L("ext_like_minprops", {"oneOf": [dict(obj({"V": INT}, ["V"]), minProperties=1), obj({"W": STR}, ["W"], additionalProperties=False)]}, enf=False),
    L("int_tag_mixed", {"oneOf": [obj({"t": {"type": "string", "enum": ["A"]}, "x": INT}, ["t", "x"], additionalProperties=False),
                                  obj({"t": {"type": "string", "enum": ["B"]}, "y": INT}, ["t"])]}),
    L("int_tag_shared", {"oneOf": [obj({"t": {"type": "string", "enum": ["A"]}, "v": INT}, ["t", "v"]),
                                   obj({"t": {"type": "string", "enum": ["B"]}, "v": STR}, ["t", "v"])]}),
    L("adj_opt_content", {"oneOf": [obj({"kind": {"type": "string", "enum": ["count"]}, "value": INT}, ["kind"]),
                                    obj({"kind": {"type": "string", "enum": ["label"]}, "value": STR}, ["kind", "value"])]}),
    L("ext_shared_inline", {"oneOf": [obj({"A": obj({"v": obj({"x": INT}, ["x"])}, ["v"])}, ["A"], additionalProperties=False),
                                      obj({"B": obj({"v": obj({"y": STR}, ["y"])}, ["v"])}, ["B"], additionalProperties=False)]}),
    L("untagged_subset", {"oneOf": [obj({"name": STR}, ["name"], additionalProperties=False), obj({"name": STR, "email": STR}, ["name", "email"])]}),
    L("untagged_subset_rev", {"oneOf": [obj({"name": STR, "email": STR}, ["name", "email"]), obj({"name": STR}, ["name"], additionalProperties=False)]}),
    L("untagged_vec_set", {"oneOf": [{"type": "array", "items": INT}, {"type": "array", "items": INT, "uniqueItems": True}]}, ff=False),
    L("anyof_arr_bounded", {"anyOf": [{"type": "array", "items": STR, "minItems": 1, "maxItems": 3}, {"type": "array", "items": INT, "minItems": 1, "maxItems": 3}]}),
    L("anyof_arr_fixed2", {"anyOf": [{"type": "array", "items": STR, "minItems": 2, "maxItems": 2}, {"type": "array", "items": INT, "minItems": 2, "maxItems": 2}]}),
    L("anyof_arr_len_disjoint", {"anyOf": [{"type": "array", "items": INT, "minItems": 3}, {"type": "array", "items": INT, "maxItems": 2}]}),
    # a constraint added to a referenced definition through allOf (extra definitions travel with the shape)
    L("ref_allof_maxlen", {"allOf": [{"$ref": "#/definitions/XLabel"}, {"maxLength": 4}]}, enf=True, strish=True, defs={"XLabel": {"type": "string"}}),
    L("ref_allof_minlen", {"allOf": [{"$ref": "#/definitions/XLabel"}, {"minLength": 3}]}, enf=True, strish=True, defs={"XLabel": {"type": "string"}}),
    L("ref_allof_pattern", {"allOf": [{"$ref": "#/definitions/XLabel"}, {"pattern": "^[a-z]+$"}]}, enf=True, strish=True, defs={"XLabel": {"type": "string"}}),
    L("ref_allof_enum", {"allOf": [{"$ref": "#/definitions/XKind"}, {"enum": ["a"]}]}, enf=True, strish=True, defs={"XKind": {"type": "string", "enum": ["a", "b"]}}),
    L("ref_allof_prop", {"allOf": [{"$ref": "#/definitions/XObj"}, {"properties": {"s": {"maxLength": 2}}}]}, enf=True,
      defs={"XObj": obj({"s": STR, "n": INT}, ["s"])}),
    L("ref_allof_required", {"allOf": [{"$ref": "#/definitions/XObj"}, {"required": ["n"]}]}, enf=True, defs={"XObj": obj({"s": STR, "n": INT}, ["s"])}),
    # allOf in which two object branches constrain the SAME optional property
    L("allof_prop_tuple", {"allOf": [obj({"name": STR, "range": {"type": "array", "items": [INT, INT], "minItems": 2, "maxItems": 2}}, ["name"]),
                                     obj({"range": {"type": "array", "items": {"type": "integer", "minimum": 0}}})]}),
    L("allof_prop_enum", {"allOf": [obj({"name": STR, "k": {"type": "string", "enum": ["a", "b"]}}, ["name"]), obj({"k": {"type": "string", "enum": ["b", "c"]}})]}),
    L("allof_prop_obj", {"allOf": [obj({"name": STR, "o": obj({"x": INT})}, ["name"]), obj({"o": obj({"y": STR}, ["y"])})]}),
    L("allof_prop_array", {"allOf": [obj({"name": STR, "v": {"type": "array", "items": INT}}, ["name"]), obj({"v": {"type": "array", "minItems": 1}})]}),
    # an inline object carrying BOTH its own default and property defaults served by the generic helpers (default_bool, default_u64, ..)
    L("inline_defaults_both", obj({"retry": {"type": "object", "default": {"enabled": True, "attempts": 3, "floor": -4, "nz": 2},
                                             "properties": {"enabled": {"type": "boolean", "default": True}, "attempts": {"type": "integer", "default": 3},
                                                            "floor": {"type": "integer", "default": -4}, "nz": {"type": "integer", "format": "uint32", "minimum": 1, "default": 2}}}}), enf=True),
    # scale family: containers past any plausible small-size fast path (> 16 / > 32 entries)
    L("enum_20", {"type": "string", "enum": ["v%02d" % i for i in range(20)]}, enf=True, strish=True),
    L("struct_20", obj({"m%02d" % i: (INT if i % 2 else STR) for i in range(20)}, ["m00", "m01"]), enf=True),
    L("ext_20", {"oneOf": [{"type": "string", "enum": ["u%02d" % i for i in range(10)]}] +
                          [obj({"V%02d" % i: INT}, ["V%02d" % i], additionalProperties=False) for i in range(10)]}, enf=True),
    L("int_tag_18", {"oneOf": [obj({"t": {"type": "string", "enum": ["k%02d" % i]}, "x%02d" % i: INT}, ["t"]) for i in range(18)]}, enf=True),
    L("untagged_17", {"oneOf": [obj({"p%02d" % i: INT}, ["p%02d" % i], additionalProperties=False) for i in range(16)] + [STR]}, enf=False),
    L("allof_enum_20_18", {"allOf": [{"$ref": "#/definitions/XRegion"}, {"$ref": "#/definitions/XSupported"}]}, enf=True, strish=True, sup=False,
      defs={"XRegion": {"type": "string", "enum": ["r%02d" % i for i in range(20)]},
            "XSupported": {"type": "string", "enum": ["r%02d" % i for i in reversed(range(2, 20))] + ["zz1", "zz2"]}}),
    L("allof_objs_17", {"allOf": [obj({"q%02d" % i: INT}) for i in range(17)]}, enf=False, sup=False),
    L("map_of_enum_20", {"type": "object", "additionalProperties": INT, "propertyNames": {"type": "string", "enum": ["k%02d" % i for i in range(20)]}}, ff=False, enf=False),
    L("tuple_13", {"type": "array", "items": [INT if i % 2 else STR for i in range(13)], "minItems": 13, "maxItems": 13}, enf=True),
    L("array_33", {"type": "array", "items": INT, "minItems": 33, "maxItems": 33}, enf=True),
    # arms found unexercised by a coverage run of the quick tier (instrumented adapter, development aid): untyped enums of one implied type,
    # string enum listing null, $ref with validation siblings, reference chains, an unsatisfiable subschema mix, not-enum over numbers
    L("enum_str_with_null", {"type": "string", "enum": ["a", "b", None]}, enf=False, ff=False, sup=False),   # "invalid JSON Schema" by the code's own comment: best effort only
    # C05 speaks of string enums and TYPED non-string enums: the untyped forms are not in its enforced fragment
    L("enum_untyped_int", {"enum": [1, 2]}, enf=False),
    L("enum_untyped_bool", {"enum": [True]}, enf=False),
    L("enum_untyped_arr", {"enum": [[1], [2, 3]]}, enf=False, sup=False),
    L("enum_untyped_obj", {"enum": [{"a": 1}, {"a": 2}]}, enf=False, sup=False),
    L("not_enum_int", {"type": "integer", "not": {"enum": [1, 2]}}, ff=False, enf=True),
    L("not_enum_negint", {"type": "integer", "not": {"enum": [-1, -2, 7]}}, ff=False, enf=True),
    # deny lists whose `type` sits inside the negation, carrying a default (the default is kept in this spelling)
    L("deny_typed_str_dflt", {"not": {"type": "string", "enum": ["root", "admin"]}, "default": "guest"}, ff=False, enf=False),
    L("deny_typed_int_dflt", {"not": {"type": "integer", "enum": [0, 13]}, "default": 7}, ff=False, enf=False),
    L("not_typed_negint", {"not": {"type": "integer", "enum": [-1, -2, 7]}}, ff=False, enf=True),   # the type sits inside `not`: an i64 deny list
    L("enum_negint", {"type": "integer", "enum": [-1, 0, 1]}, enf=True),
    L("not_enum_untyped_int", {"not": {"enum": [1, 2]}}, ff=False, enf=False, sup=False),
    # validation keywords next to $ref: draft-07 ignores them (so does the oracle), typify applies them: outside the faithful / enforced fragments
    L("ref_sibling_required", {"$ref": "#/definitions/XObj", "required": ["n"]}, defs={"XObj": obj({"s": STR, "n": INT}, ["s"])}, enf=False, ff=False, sup=False),
    L("ref_sibling_maxlen", {"$ref": "#/definitions/XLabel", "maxLength": 3}, defs={"XLabel": {"type": "string"}}, enf=False, ff=False, strish=True, sup=False),
    L("ref_sibling_props", {"$ref": "#/definitions/XObj", "properties": {"extra": BOOL}}, defs={"XObj": obj({"s": STR, "n": INT}, ["s"])}, enf=False, sup=False),
    L("ref_chain", {"$ref": "#/definitions/XA"}, defs={"XA": {"$ref": "#/definitions/XB"}, "XB": {"$ref": "#/definitions/XObj"}, "XObj": obj({"s": STR, "n": INT}, ["s"])}, enf=True),
    L("ref_chain_sibling", {"$ref": "#/definitions/XA", "required": ["n"]}, defs={"XA": {"$ref": "#/definitions/XObj", "description": "hop"}, "XObj": obj({"s": STR, "n": INT}, ["s"])},
      enf=False, ff=False, sup=False),
    L("subschema_never", {"allOf": [STR], "oneOf": [INT, BOOL]}, ff=False, enf=False, sup=False),
    L("allof_anyof_mix", {"allOf": [obj({"a": INT})], "anyOf": [{"required": ["a"]}, {"required": ["b"]}]}, ff=False, enf=False, sup=False),
    L("map_pat_required", {"type": "object", "patternProperties": {"^[a-z]+$": INT}, "required": ["abc"], "additionalProperties": False}, ff=False, enf=False, sup=False),
    L("map_pat_with_props", {"type": "object", "properties": {"fixed": STR}, "patternProperties": {"^x-": INT}, "additionalProperties": False}, ff=False, enf=False, sup=False),
    L("map_pat_two", {"type": "object", "patternProperties": {"^a": INT, "^b": INT}, "additionalProperties": False}, ff=False, enf=False, sup=False),
    L("map_pat_two_diff", {"type": "object", "patternProperties": {"^a": INT, "^b": STR}, "additionalProperties": False}, ff=False, enf=False, sup=False),
    L("map_pat_ap_true", {"type": "object", "patternProperties": {"^a": INT}, "additionalProperties": True}, ff=False, enf=False, sup=False),
    L("enum_empty", {"type": "string", "enum": []}, ff=False, enf=False, sup=False),
    L("enum_str_bad_value", {"type": "string", "enum": ["a", 1]}, ff=False, enf=False, sup=False),
    L("pattern_invalid", {"type": "string", "pattern": "("}, ff=False, enf=False, sup=False),
    # one shape per remaining arm of convert_schema_object (type-less validation, $ref with siblings, type lists, boolean member schemas, ...)
    L("obj_notype", {"properties": {"a": INT}, "required": ["a"]}, ff=False, enf=False),
    L("arr_notype", {"items": INT}, ff=False, enf=False),
    L("ref_with_type", {"$ref": "#/definitions/XObj", "type": "object"}, defs={"XObj": obj({"s": STR, "n": INT}, ["s"])}, enf=True),
    L("ref_with_desc", {"$ref": "#/definitions/XObj", "description": "a described reference"}, defs={"XObj": obj({"s": STR, "n": INT}, ["s"])}, enf=True),
    L("all_types", {"type": ["null", "boolean", "object", "array", "number", "string", "integer"]}, enf=False),
    # near-misses of "every type": one JSON type is left out, and a value of that type must be rejected (the JSON type of scalars is enforced)
    L("all_types_but_null", {"type": ["boolean", "object", "array", "number", "string", "integer"]}, enf=True),
    L("all_types_but_null_int", {"type": ["boolean", "object", "array", "number", "string"]}, enf=True),
    L("all_types_but_string", {"type": ["null", "boolean", "object", "array", "number", "integer"]}, enf=True),
    L("all_types_but_bool", {"type": ["null", "object", "array", "number", "string", "integer"]}, enf=True),
    L("type_single_list", {"type": ["string"]}, enf=True, strish=True),
    L("multi_type_val", {"type": ["string", "integer"], "maxLength": 2, "minimum": 0}, enf=False),
    L("type_obj_str", {"type": ["object", "string"], "properties": {"a": INT}, "required": ["a"]}, enf=True),
    L("type_null_obj", {"type": ["object", "null"], "properties": {"a": INT}, "required": ["a"]}, enf=True),
    L("type_null_arr", {"type": ["array", "null"], "items": INT}, enf=True),
    L("enum_str_fmt", {"type": "string", "format": "uuid", "enum": ["a", "b"]}, enf=False, strish=True),   # typify ignores the format of an enumerated string: not a represented constraint
    L("str_unkfmt_max2", {"type": "string", "format": "hostname", "maxLength": 2}, enf=True, strish=True),
    L("map_minprops", {"type": "object", "additionalProperties": INT, "minProperties": 1}, enf=False),
    L("struct_bool_props", obj({"a": True, "b": False, "c": INT}, ["a"]), enf=False),
    # struct variants with member defaults that FOLLOW variants of other kinds (unit, newtype, tuple): schemars' output for
    # enum Job { Idle, Num(i64), Run { cmd, #[serde(default = ..)] retries, #[serde(default = ..)] verbose } }
    L("ext_mixed_then_struct_dflt", {"oneOf": [
        {"type": "string", "enum": ["Idle"]},
        {"type": "object", "properties": {"Num": INT}, "required": ["Num"], "additionalProperties": False},
        {"type": "object", "properties": {"Run": obj({"cmd": STR, "retries": {"type": "integer", "format": "uint32", "minimum": 0, "default": 3},
                                                      "verbose": {"type": "boolean", "default": True}, "nice": {"type": "integer", "format": "int8", "default": -5}}, ["cmd"])},
         "required": ["Run"], "additionalProperties": False}]}, enf=True),
    L("int_unit_then_struct_dflt", {"oneOf": [
        obj({"t": {"type": "string", "enum": ["idle"]}}, ["t"]),
        obj({"t": {"type": "string", "enum": ["run"]}, "cmd": STR, "retries": {"type": "integer", "format": "uint32", "minimum": 0, "default": 3},
             "verbose": {"type": "boolean", "default": True}}, ["t", "cmd"])]}, enf=True),
    # anyOf of three: the first and the LAST operand overlap, the middle one is exclusive with both (exclusivity is a property of all pairs)
    # (members are untyped: with typed members a value that only fits ANOTHER open branch takes its whole declaring branch down with it in the
    # flattened-Options rendering, which is the pinned tree's behaviour for every non-exclusive anyOf of objects and not what this shape is for)
    L("anyof3_nonadjacent_obj", {"anyOf": [obj({"name": {}, "email": {}}), obj({"id": {}}, ["id"]), obj({"phone": {}, "fax": {}})]}, enf=False),
    L("anyof3_nonadjacent_obj_closed", {"anyOf": [obj({"name": STR}, additionalProperties=False), obj({"id": INT}, ["id"], additionalProperties=False),
                                                  obj({"name": STR, "phone": STR}, additionalProperties=False)]}, ff=False, enf=False),
    L("anyof3_nonadjacent_scalar", {"anyOf": [STR, INT, {"type": "string", "maxLength": 2}]}, ff=False, enf=False),
    L("oneof3_nonadjacent_tuple", {"oneOf": [{"type": "array", "items": [INT, INT], "minItems": 2, "maxItems": 2}, obj({"p": STR}, ["p"]),
                                             {"type": "array", "items": [INT, INT, INT], "minItems": 3, "maxItems": 3}]}, enf=True),
    # tuple positions that are DIFFERENT in-line objects (each needs a generated name of its own), also next to a fixed array of in-line objects
    L("tuple_two_objs", {"type": "array", "items": [obj({"x": INT, "label": STR}, ["x"]), obj({"x": INT, "weight": {"type": "number"}}, ["x", "weight"])], "minItems": 2, "maxItems": 2},
      enf=True, depth=3),   # (the later position's own member is required, so that every valid instance carries it)
    L("tuple_obj_enum_obj", {"type": "array", "items": [obj({"a": STR}), {"type": "string", "enum": ["p", "q"]}, obj({"b": INT}), {"type": "string", "enum": ["r", "s"]}],
                             "minItems": 4, "maxItems": 4}, enf=True, depth=3),
    L("tuple_two_constrained", {"type": "array", "items": [{"type": "string", "maxLength": 5}, {"type": "string", "maxLength": 2}], "minItems": 2, "maxItems": 2}, enf=True),
    L("tuple_two_enums", {"type": "array", "items": [{"type": "string", "enum": ["red", "green"]}, {"type": "string", "enum": ["on", "off"]}], "minItems": 2, "maxItems": 2}, enf=True),
    L("tuple_two_int_enums", {"type": "array", "items": [{"type": "integer", "enum": [1, 2, 3]}, {"type": "integer", "enum": [10, 20]}, {"type": "string", "not": {"enum": ["x"]}}],
                              "minItems": 3, "maxItems": 3}, enf=True),
    # additionalProperties given as a $ref next to an annotation (still a schema, not "anything")
    L("struct_ap_ref_annotated", obj({"owner": STR}, ["owner"], additionalProperties={"description": "per-item stock", "$ref": "#/definitions/XObj"}),
      defs={"XObj": obj({"s": STR, "n": INT}, ["s"])}, enf=False, depth=3),
    L("struct_ap_titled_any", obj({"owner": STR}, ["owner"], additionalProperties={"title": "Anything", "description": "free-form"}), enf=False),
    # internally tagged enum ALL of whose variants are unit variants
    L("int_tag_all_unit", {"oneOf": [obj({"kind": {"type": "string", "enum": ["fast"]}}, ["kind"]), obj({"kind": {"type": "string", "enum": ["slow"]}}, ["kind"])]}, enf=True),
    # value lists that repeat a value (typed non-string enum, deny list): the list's order in the generated test is the document's
    L("enum_int_repeat", {"type": "integer", "enum": [3, 1, 2, 1, 5]}, enf=True, sup=False),
    L("enum_num_repeat", {"enum": [0.5, 0.25, 0.5, 4]}, ff=False, enf=False, sup=False),
    L("deny_str_repeat", {"type": "string", "not": {"enum": ["a", "b", "a", "c"]}}, ff=False, enf=True, sup=False, strish=True),
    # a tagged variant carrying ANOTHER required single-valued string property that sorts before the tag name and exists in that variant only
    L("int_tag_extra_const_before", {"oneOf": [obj({"kind": {"type": "string", "enum": ["circle"]}, "api": {"type": "string", "enum": ["v1"]}, "radius": INT}, ["kind", "api", "radius"]),
                                               obj({"kind": {"type": "string", "enum": ["square"]}, "side": INT}, ["kind", "side"])]}, enf=True),
    L("adj_tag_content_const", {"oneOf": [obj({"kind": {"type": "string", "enum": ["text"]}, "body": STR}, ["kind", "body"]),
                                          obj({"kind": {"type": "string", "enum": ["ping"]}, "body": {"type": "string", "enum": ["empty"]}}, ["kind", "body"])]}, enf=True),
    # anyOf / oneOf of objects that pin TWO shared required properties to constants, one to the same value and one to different values
    # (a versioned tagged union): whether the branches are exclusive must not depend on which pinned property is looked at first
    L("anyof_two_pinned", {"anyOf": [obj({"kind": {"type": "string", "enum": ["circle"]}, "version": {"type": "string", "enum": ["v1"]}, "r": INT}, ["kind", "version", "r"]),
                                     obj({"kind": {"type": "string", "enum": ["square"]}, "version": {"type": "string", "enum": ["v1"]}, "s": INT}, ["kind", "version", "s"])]}, enf=True),
    L("anyof_three_pinned", {"anyOf": [obj({"a": {"type": "string", "enum": ["x"]}, "b": {"type": "string", "enum": ["y"]}, "c": {"type": "string", "enum": ["p"]}}, ["a", "b", "c"]),
                                       obj({"a": {"type": "string", "enum": ["x"]}, "b": {"type": "string", "enum": ["y"]}, "c": {"type": "string", "enum": ["q"]}, "n": INT}, ["a", "b", "c"])]},
      enf=True),
    # definitions NAMED like the native type their format maps to (no wrapper type is generated for them) and used only through $ref
    L("ref_named_like_native_uuid", {"$ref": "#/definitions/Uuid"}, defs={"Uuid": {"type": "string", "format": "uuid"}}, strish=True),
    L("ref_named_like_native_date", {"$ref": "#/definitions/NaiveDate"}, defs={"NaiveDate": {"type": "string", "format": "date"}}, strish=True),
    L("ref_named_like_native_datetime", {"$ref": "#/definitions/DateTime"}, defs={"DateTime": {"type": "string", "format": "date-time"}}, strish=True),
    L("ref_named_like_native_ip", {"$ref": "#/definitions/IpAddr"}, defs={"IpAddr": {"type": "string", "format": "ip"}}, strish=True),
    L("ref_named_like_native_u8", {"$ref": "#/definitions/U8"}, defs={"U8": {"type": "integer", "format": "uint8", "minimum": 0}}),
    L("ref_named_like_native_string", {"$ref": "#/definitions/String"}, defs={"String": {"type": "string"}}, strish=True),
    # an object whose anyOf alternatives partly repeat the body (they merge to the SAME schema): the surviving alternatives must keep document order
    L("obj_anyof_redundant", {"type": "object", "properties": {"name": STR, "legs": INT, "wings": INT}, "required": ["name"],
                              "anyOf": [{"properties": {"name": STR}}, {"properties": {"legs": INT}}, {"required": ["legs"]}, {"required": ["wings"]}]}, ff=False, enf=False, sup=False),
    L("obj_oneof_redundant", {"type": "object", "properties": {"a": INT, "b": INT}, "oneOf": [{"required": ["a"]}, {"properties": {"a": INT}}, {"required": ["b"]}, {"properties": {"b": INT}}]},
      ff=False, enf=False, sup=False),
    # tag + content where the content member is NOT required in one branch (serde's adjacent tagging always writes the content key)
    L("adj_like_optional_content", {"oneOf": [obj({"kind": {"type": "string", "enum": ["resize"]}, "data": INT}, ["kind"]),
                                              obj({"kind": {"type": "string", "enum": ["move"]}, "data": STR}, ["kind", "data"])]}, enf=True),
    L("adj_like_all_optional_content", {"oneOf": [obj({"kind": {"type": "string", "enum": ["resize"]}, "data": INT}, ["kind"]),
                                                  obj({"kind": {"type": "string", "enum": ["move"]}, "data": STR}, ["kind"])]}, enf=True),
    # boolean schemas as union operands (generators write `true` for "anything" and `false` for a removed alternative)
    L("anyof_true_str", {"anyOf": [True, STR]}, ff=False, enf=False, sup=False),
    L("anyof_false_str", {"anyOf": [False, STR]}, ff=False, enf=False, sup=False, strish=True),
    L("oneof_false_int", {"oneOf": [False, INT]}, ff=False, enf=False, sup=False),
    L("oneof_obj_false", {"oneOf": [obj({"p": STR}, ["p"]), False, obj({"q": INT}, ["q"])]}, ff=False, enf=False, sup=False),
    # compound member types whose ELEMENTS are named generated types, with and without a default (the element's path must be written for
    # the scope it is used in: struct field, mod builder, mod defaults)
    L("tuple_named", {"type": "array", "items": [{"$ref": "#/definitions/XKind"}, {"$ref": "#/definitions/XObj"}], "minItems": 2, "maxItems": 2},
      defs={"XKind": {"type": "string", "enum": ["a", "b"]}, "XObj": obj({"s": STR, "n": INT}, ["s"])}, enf=True),
    L("tuple_named_dflt", {"type": "array", "items": [{"$ref": "#/definitions/XKind"}, {"$ref": "#/definitions/XObj"}], "minItems": 2, "maxItems": 2, "default": ["a", {"s": "d"}]},
      defs={"XKind": {"type": "string", "enum": ["a", "b"]}, "XObj": obj({"s": STR, "n": INT}, ["s"])}, enf=True),
    L("arr2_named_dflt", {"type": "array", "items": {"$ref": "#/definitions/XKind"}, "minItems": 2, "maxItems": 2, "default": ["a", "b"]},
      defs={"XKind": {"type": "string", "enum": ["a", "b"]}}, enf=True),
    L("vec_named_dflt", {"type": "array", "items": {"$ref": "#/definitions/XKind"}, "default": ["b"]}, defs={"XKind": {"type": "string", "enum": ["a", "b"]}}, enf=True),
    L("set_named_dflt", {"type": "array", "items": {"$ref": "#/definitions/XKind"}, "uniqueItems": True, "default": ["b"]}, defs={"XKind": {"type": "string", "enum": ["a", "b"]}}),
    L("map_named_dflt", {"type": "object", "additionalProperties": {"$ref": "#/definitions/XKind"}, "default": {"k": "a"}}, defs={"XKind": {"type": "string", "enum": ["a", "b"]}}, enf=True),
    L("nullable_named_dflt", {"oneOf": [{"$ref": "#/definitions/XObj"}, {"type": "null"}], "default": {"s": "d"}}, defs={"XObj": obj({"s": STR, "n": INT}, ["s"])}, enf=True),
    # sibling members whose in-line schemas carry ONE title but differ in content: the first type registered under the name is used for
    # all of them (C02-KF4's defect), so which one that is must at least be a function of the document
    L("same_title_inline", obj({"alpha": dict(obj({"a": STR}), title="Payload"), "bravo": dict(obj({"b": INT}), title="Payload"),
                                "charlie": dict(obj({"c": BOOL}), title="Payload"), "delta": dict(obj({"d": INT}), title="Payload")}), ff=False, enf=False, sup=False),
    L("titled_inline", obj({"p": dict(obj({"x": INT}), title="Titled One"), "q": dict(obj({"y": INT}), title="titled_two")}), enf=True),
    # typed non-string enum over an object: a constrained newtype around an inner struct
    L("obj_enum", {"type": "object", "properties": {"label": STR}, "enum": [{"label": "a"}, {"label": "b"}]}, enf=True),
    L("untagged_arr_tuple", {"anyOf": [{"type": "array", "items": INT, "maxItems": 1},
                                       {"type": "array", "items": [INT, INT], "minItems": 2, "maxItems": 2}]}, ff=False),
    L("untagged_tuples_f64", {"oneOf": [{"type": "array", "items": [{"type": "number"}, {"type": "number"}], "minItems": 2, "maxItems": 2},
                                        {"type": "array", "items": [{"type": "number"}, {"type": "number"}, {"type": "number"}], "minItems": 3, "maxItems": 3}]}),
    L("ext_tuple_f64", {"oneOf": [{"type": "string", "enum": ["origin", "center"]},
                                  obj({"at": {"type": "array", "items": [STR, {"type": "number"}], "minItems": 2, "maxItems": 2}}, ["at"], additionalProperties=False)]}),
    L("enum_f64_payload", {"oneOf": [obj({"F": {"type": "number"}}, ["F"], additionalProperties=False), {"type": "string", "enum": ["U"]}]}),
    L("never", {"allOf": [{"type": "string"}, {"type": "integer"}]}, ff=False),
    L("newtype_f64", {"type": "number", "minimum": 0}),
    # recursion through the definition the context names T (in non-definition contexts the cycle runs through the wrapper)
    L("rec_opt", obj({"next": {"$ref": "#/definitions/T"}, "v": INT}, ["v"]), recursive=True),
    L("rec_vec", obj({"kids": {"type": "array", "items": {"$ref": "#/definitions/T"}}, "v": INT}), recursive=True),
    L("rec_nullable", obj({"next": {"oneOf": [{"$ref": "#/definitions/T"}, {"type": "null"}]}}), recursive=True),
    L("rec_map", obj({"by": {"type": "object", "additionalProperties": {"$ref": "#/definitions/T"}}}), recursive=True),
    L("nested_opt_struct", obj({"o": obj({"i": obj({"x": INT}, ["x"])}, ["i"])})),
    L("struct_extra_member", obj({"extra": INT}, ["extra"], additionalProperties=STR), enf=False),
    L("vec_vec", {"type": "array", "items": {"type": "array", "items": INT}}),
    L("map_struct", {"type": "object", "additionalProperties": obj({"x": INT}, ["x"])}, enf=False),
    L("struct_req_nullable", obj({"a": {"type": ["string", "null"]}}, ["a"])),
    L("struct_intrinsic_defaults", obj({"s": {"type": "string", "default": ""}, "i": {"type": "integer", "default": 0},
                                        "b": {"type": "boolean", "default": False}, "v": {"type": "array", "items": INT, "default": []},
                                        "n": {"type": ["string", "null"], "default": None}})),
    L("map_names_any", obj({"labels": {"type": "object", "propertyNames": {"type": "string", "pattern": "^[a-z]+$"}}}), ff=False),
    L("struct_defaults", obj({"s": {"type": "string", "default": "dflt"}, "v": {"type": "array", "items": INT, "default": [1, 2]},
                              "o": {"type": "object", "properties": {"x": INT}, "default": {"x": 3}}})),
]


# ---- contexts ---------------------------------------------------------------------------------------------

def C(id, build, ff=True, enf=True):
    return {"id": id, "build": build, "ff": ff, "enf": enf}


def _doc(defs):
    return {"definitions": defs}


CONTEXTS = [
    C("def", lambda s: _doc({"T": s})),
    C("root", lambda s: dict(copy.deepcopy(s), title="T") if isinstance(s, dict) else None),
    C("member_req", lambda s: _doc({"T": obj({"m": s}, ["m"])})),
    C("member_opt", lambda s: _doc({"T": obj({"m": s})})),
    C("member_2", lambda s: _doc({"T": obj({"m": s, "n": s}, ["m"])})),
    C("vec_item", lambda s: _doc({"T": {"type": "array", "items": s}})),
    C("map_value", lambda s: _doc({"T": {"type": "object", "additionalProperties": s}}), enf=False),
    C("tuple_slot", lambda s: _doc({"T": {"type": "array", "items": [INT, s], "minItems": 2, "maxItems": 2}})),
    C("array_item", lambda s: _doc({"T": {"type": "array", "items": s, "minItems": 2, "maxItems": 2}})),
    C("ext_payload", lambda s: _doc({"T": {"oneOf": [obj({"V": s}, ["V"], additionalProperties=False), {"type": "string", "enum": ["U"]}]}})),
    C("int_payload", lambda s: _doc({"T": {"oneOf": [obj({"t": {"type": "string", "enum": ["A"]}, "v": s}, ["t", "v"]),
                                                     obj({"t": {"type": "string", "enum": ["B"]}}, ["t"])]}})),
    C("adj_payload", lambda s: _doc({"T": {"oneOf": [obj({"t": {"type": "string", "enum": ["A"]}, "c": s}, ["t", "c"]),
                                                     obj({"t": {"type": "string", "enum": ["B"]}, "c": INT}, ["t", "c"])]}})),
    C("untagged_payload", lambda s: _doc({"T": {"oneOf": [obj({"p": s}, ["p"], additionalProperties=False),
                                                          obj({"q": BOOL}, ["q"], additionalProperties=False)]}})),
    C("nullable_oneof", lambda s: _doc({"T": obj({"m": {"oneOf": [s, {"type": "null"}]}}, ["m"])})),
    C("ref_alias", lambda s: _doc({"T": {"$ref": "#/definitions/Inner"}, "Inner": s})),
    C("ref_member", lambda s: _doc({"T": obj({"m": {"$ref": "#/definitions/Inner"}}, ["m"]), "Inner": s})),
    C("ref_nullable", lambda s: _doc({"T": obj({"m": {"anyOf": [{"$ref": "#/definitions/Inner"}, {"type": "null"}]}}), "Inner": s})),
    C("allof1", lambda s: _doc({"T": {"allOf": [s]}})),
]
CONTEXT = {c["id"]: c for c in CONTEXTS}
QUICK_CONTEXTS = ["def", "member_req", "member_opt", "vec_item", "ext_payload", "ref_member", "root"]


VKINDS = ["unit", "newtype", "tuple", "struct_open", "struct_closed"]


def _variant(tagging, kind, i, leaf_schema, dup):
    """schema of variant number i (0-based) of the given kind under a tagging, or None when serde cannot express it.
    Variant and member names are derived from the KIND (U, N, T, So, Sc; a second variant of one kind gets the suffix 2) so
    that known findings can name the failing inputs independently of the variant's position."""
    suffix = "2" if dup else ""
    name = {"unit": "U", "newtype": "N", "tuple": "T", "struct_open": "So", "struct_closed": "Sc"}[kind] + suffix
    m = {"struct_open": "o", "struct_closed": "c"}.get(kind, "") + suffix
    payload_leaf = leaf_schema if i == 0 else [INT, BOOL][i - 1]
    tup = {"type": "array", "items": [payload_leaf, INT] + ([BOOL] * i), "minItems": 2 + i, "maxItems": 2 + i}
    st = obj({"x" + m: payload_leaf, "y" + m: INT}, ["x" + m])
    if kind == "struct_closed":
        st["additionalProperties"] = False
    body = {"newtype": payload_leaf, "tuple": tup, "struct_open": st, "struct_closed": st}.get(kind)
    if tagging == "ext":
        if kind == "unit":
            return {"type": "string", "enum": [name]}
        return obj({name: body}, [name], additionalProperties=False)
    if tagging == "adj":
        tag = {"type": "string", "enum": [name]}
        if kind == "unit":
            return obj({"t": tag}, ["t"])
        return obj({"t": tag, "c": body}, ["t", "c"])
    if tagging == "int":
        tag = {"type": "string", "enum": [name]}
        if kind == "unit":
            return obj({"t": tag}, ["t"])
        if kind in ("struct_open", "struct_closed"):
            v = obj(dict(st["properties"], t=tag), ["t"] + st["required"])
            if kind == "struct_closed":
                v["additionalProperties"] = False
            return v
        return None
    if tagging == "unt":
        if kind == "unit":
            return {"type": "null"} if i == 0 else None
        return body
    return None


def tagged_family(tier):
    """systematic product: tagging x ordered tuples of variant kinds (pairs; thorough also triples) x payload leaf"""
    out = []
    leaves = ["string"] if tier == "quick" else ["string", "str_max2", "enum_ab"]
    import itertools as _it
    for tagging in ("ext", "adj", "int", "unt"):
        combos = list(_it.product(VKINDS, repeat=2))
        if tier != "quick":
            combos += [c for c in _it.product(VKINDS, repeat=3) if len(set(c)) == 3][::2]
        for kinds in combos:
            for lid in leaves:
                leaf = LEAF[lid]
                vs = [_variant(tagging, k, i, leaf["schema"], k in kinds[:i]) for i, k in enumerate(kinds)]
                if any(v is None for v in vs):
                    continue
                if tagging == "unt" and len({json.dumps(v, sort_keys=True) for v in vs}) < len(vs):
                    continue
                closed_all = all(k != "struct_open" for k in kinds)
                sh = L("%s[%s](%s)" % (tagging, ",".join(kinds), lid), {"oneOf": vs}, ff=leaf["ff"], enf=leaf["enf"] and closed_all and tagging != "unt")
                sh["fam"] = True
                sh["tg"] = {"tg": tagging, "has_unit": "unit" in kinds, "has_open": "struct_open" in kinds, "has_closed": "struct_closed" in kinds,
                            "has_other": any(k in ("newtype", "tuple") for k in kinds)}
                out.append(sh)
    return out


# member type -> (schema, intrinsic default or None, non-intrinsic default or None)
MEMBER_TYPES = {
    "string": (STR, "", "dflt"), "integer": (INT, 0, 7), "u8": ({"type": "integer", "format": "uint8", "minimum": 0}, 0, 9), "bool": (BOOL, False, True),
    "number": ({"type": "number"}, None, None), "str_max2": ({"type": "string", "maxLength": 2}, "", "ab"),
    "enum_ab": ({"type": "string", "enum": ["a", "b"]}, None, "b"), "vec": ({"type": "array", "items": INT}, [], [3]),
    "set": ({"type": "array", "items": INT, "uniqueItems": True}, [], [3]),
    "set_min1": ({"type": "array", "items": STR, "uniqueItems": True, "minItems": 1}, None, ["x"]),
    "vec_min1": ({"type": "array", "items": STR, "minItems": 1}, None, ["x"]),
    "map_min1": ({"type": "object", "additionalProperties": INT, "minProperties": 1}, None, {"k": 1}),
    "map": ({"type": "object", "additionalProperties": INT}, {}, {"tier": 2}), "map_any": ({"type": "object"}, {}, {"k": [1]}),
    "nullable": ({"type": ["string", "null"]}, None, "nd"), "tuple": ({"type": "array", "items": [INT, STR], "minItems": 2, "maxItems": 2}, None, [7, "d"]),
    "tuple1": ({"type": "array", "items": [INT], "minItems": 1, "maxItems": 1}, None, [7]),
    "unit": ({"type": "null"}, None, None), "any": ({}, None, {"d": 1}), "uuid": ({"type": "string", "format": "uuid"}, None, None),
    "inline_struct": (obj({"q": INT}, ["q"]), None, {"q": 1}),
}


def _member(tname, state):
    schema, intrinsic, other = MEMBER_TYPES[tname]
    s = copy.deepcopy(schema)
    if state == "dflt_intrinsic":
        if intrinsic is None and tname != "nullable":
            return None
        s["default"] = intrinsic
    elif state == "dflt":
        if other is None:
            return None
        s["default"] = other
    return s


def member_family(tier):
    """systematic product: struct members (type x state {required, optional, intrinsic default, non-intrinsic default}); singles, and
    (thorough) ordered pairs: the serde attributes typify picks depend on exactly this pair"""
    out = []
    states = ["req", "opt", "dflt_intrinsic", "dflt"]
    specs = []
    for t in MEMBER_TYPES:
        for st in states:
            m = _member(t, st)
            if m is not None:
                specs.append((t, st, m))
    for (t, st, m) in specs:
        out.append(L("member[%s:%s]" % (t, st), obj({"a": m, "z": INT}, ["a"] if st == "req" else []), ff=t not in ("number",), enf=False, fam=True))
    if tier != "quick":
        core = [x for x in specs if x[0] in ("string", "str_max2", "vec", "map", "nullable", "enum_ab", "inline_struct", "unit")]
        for (t1, s1, m1) in core:
            for (t2, s2, m2) in core:
                req = [n for n, st in (("a", s1), ("b", s2)) if st == "req"]
                out.append(L("member2[%s:%s,%s:%s]" % (t1, s1, t2, s2), obj({"a": m1, "b": m2}, req), ff=True, enf=False, fam=True))
    return out


# ---- union family: {oneOf, anyOf} x ordered pairs of operands --------------------------------------------
UNION_OPERANDS = {
    "null": {"type": "null"}, "bool": BOOL, "int": INT, "num": {"type": "number"}, "str": STR,
    "str_max2": {"type": "string", "maxLength": 2}, "enum_ab": {"type": "string", "enum": ["a", "b"]},
    "vec_int": {"type": "array", "items": INT}, "vec_str": {"type": "array", "items": STR},
    "arr13_str": {"type": "array", "items": STR, "minItems": 1, "maxItems": 3},
    "arr13_int": {"type": "array", "items": INT, "minItems": 1, "maxItems": 3},
    "arr2_int": {"type": "array", "items": INT, "minItems": 2, "maxItems": 2},
    "tuple_is": {"type": "array", "items": [INT, STR], "minItems": 2, "maxItems": 2},
    "obj_p": obj({"p": STR}, ["p"], additionalProperties=False), "obj_q_open": obj({"q": INT}, ["q"]),
    "map_int": {"type": "object", "additionalProperties": INT},
    "ref_obj": {"$ref": "#/definitions/XObj"}, "ref_str": {"$ref": "#/definitions/XLabel"},
    # operands that reach the other arms of schemas_mutually_exclusive: untyped enums, type lists, allOf / not wrappers
    "enum_int_untyped": {"enum": [1, 2]}, "str_or_null": {"type": ["string", "null"]}, "int_or_bool": {"type": ["integer", "boolean"]},
    "int_or_null": {"type": ["integer", "null"]},
    "ref_enum": {"$ref": "#/definitions/XKind"}, "ref_enum2": {"$ref": "#/definitions/XMode"},   # string enums defined AFTER the union (names sort later)
    "enum_int_typed": {"type": "integer", "enum": [1, 2]}, "deny_str": {"not": {"type": "string", "enum": ["all", "none"]}},
    "allof_str": {"allOf": [{"type": "string"}, {"maxLength": 3}]},
}   # ({"const": "a"} is not an operand: typify documents that it ignores const, so every union with it is non-exclusive by construction)
UNION_QUICK = ["null", "int", "str", "enum_ab", "vec_int", "arr13_str", "arr13_int", "tuple_is", "obj_p", "ref_str", "enum_int_untyped", "str_or_null", "int_or_null", "int_or_bool", "num", "deny_str", "ref_enum", "ref_enum2"]
_UNION_DEFS = {"XObj": obj({"s": STR, "n": INT}, ["s"]), "XLabel": {"type": "string"}, "XKind": {"type": "string", "enum": ["k1", "k2"]},
               "XMode": {"type": "string", "enum": ["m1", "m2"]}}
_JTYPE = {"null": "null", "bool": "boolean", "int": "number", "num": "number", "str": "string", "str_max2": "string", "enum_ab": "string",
          "vec_int": "array", "vec_str": "array", "arr13_str": "array", "arr13_int": "array", "arr2_int": "array", "tuple_is": "array",
          "obj_p": "object", "obj_q_open": "object", "map_int": "object", "ref_obj": "object", "ref_str": "string",
          "enum_int_untyped": "number", "ref_enum": "string", "ref_enum2": "string", "enum_int_typed": "number", "deny_str": "string", "int_or_null": "number|null", "str_or_null": "string|null", "int_or_bool": "number|boolean", "allof_str": "string"}


_MINI = [None, True, 0, 1, 2, 3, 1.5, "", "a", "abc", "k1", "m1", "all", "0b9f1c1e-2d3a-4b5c-8d7e-6f5a4b3c2d1e", [], [1], [1, 2], [1, 2, 3, 4], ["a"], [1, "a"], ["a", "b"],
         {}, {"p": "x"}, {"q": 1}, {"s": "x"}, {"s": "x", "n": 1}, {"s": "x", "q": 1}, {"k": 1}]


def _overlap(a, b):
    """do two operand schemas share an instance of the mini universe (python jsonschema, Draft 7)?"""
    import jsonschema
    va, vb = (jsonschema.Draft7Validator(dict(copy.deepcopy(x), definitions=_UNION_DEFS)) for x in (a, b))
    return any(va.is_valid(v) and vb.is_valid(v) for v in _MINI)


def union_family(tier):
    out = []
    ops = UNION_QUICK if tier == "quick" else list(UNION_OPERANDS)
    for comb in ("oneOf", "anyOf"):
        for a in ops:
            for b in ops:
                if a == b:
                    continue
                disjoint = _JTYPE[a] != _JTYPE[b]
                overlap = _overlap(UNION_OPERANDS[a], UNION_OPERANDS[b])
                enf_ops = all(x not in ("map_int", "obj_q_open", "ref_obj", "arr13_str", "arr13_int") for x in (a, b))
                sh = L("%s[%s,%s]" % (comb, a, b), {comb: [copy.deepcopy(UNION_OPERANDS[a]), copy.deepcopy(UNION_OPERANDS[b])]},
                       ff="deny_str" not in (a, b),   # {not: {type: string, enum}} also admits every non-string; typify reads it as "a string except .."
                       enf=enf_ops and "deny_str" not in (a, b) and (comb == "anyOf" or not overlap), fam=True,
                       defs={k: v for k, v in _UNION_DEFS.items() if ("ref_obj" in (a, b) and k == "XObj") or ("ref_str" in (a, b) and k == "XLabel")
                             or ("ref_enum" in (a, b) and k == "XKind") or ("ref_enum2" in (a, b) and k == "XMode")})
                sh["tg"] = {"un_comb": comb, "un_a": a, "un_b": b, "un_types": "+".join(sorted({_JTYPE[a], _JTYPE[b]})), "un_same_type": not disjoint,
                            "un_overlap": overlap}
                sh["sup"] = all(x not in ("arr13_str", "arr13_int") for x in (a, b))   # schemars never emits a bounded, non-fixed array
                sh["only_ctx"] = ["def"] if (tier == "quick" and comb == "oneOf") else (["member_opt"] if tier == "quick" else ["def", "member_opt", "vec_item"])
                out.append(sh)
    return out


# ---- refinement family: allOf [base | $ref base, one further constraint] ----------------------------------
REFINE_BASES = {
    "str": (STR, [{"maxLength": 4}, {"minLength": 3}, {"pattern": "^[a-z]+$"}, {"enum": ["a", "bb"]}, {"format": "uuid"}, {"not": {"enum": ["a"]}}]),
    "str_max4": ({"type": "string", "maxLength": 4}, [{"maxLength": 2}, {"minLength": 3}, {"pattern": "^[a-z]+$"}, {"maxLength": 6}]),
    "enum_abc": ({"type": "string", "enum": ["a", "bb", "ccc"]}, [{"enum": ["a"]}, {"enum": ["bb", "ccc"]}, {"maxLength": 2}, {"not": {"enum": ["a"]}},
                                                                   # a deny list that only PARTLY overlaps the enumeration, and one disjoint from it
                                                                   {"not": {"enum": ["bb", "zz"]}}, {"not": {"enum": ["zz"]}}]),
    "int": (INT, [{"minimum": 0}, {"maximum": 255}, {"minimum": 1, "maximum": 10}, {"multipleOf": 2}, {"enum": [1, 2]}]),
    "u8": ({"type": "integer", "format": "uint8", "minimum": 0}, [{"minimum": 1}, {"maximum": 10}]),
    "enum_int": ({"type": "integer", "enum": [1, 2, 3]}, [{"enum": [1, 2]}, {"not": {"enum": [3]}}, {"enum": [3, 4]}, {"not": {"enum": [2, 9]}}, {"not": {"enum": [9]}}]),
    "enum_num": ({"type": "number", "enum": [0.5, 1, 2.5]}, [{"enum": [0.5, 1]}, {"not": {"enum": [2.5]}}, {"not": {"enum": [1, 7]}}]),
    "vec_int": ({"type": "array", "items": INT}, [{"minItems": 1}, {"maxItems": 2}, {"minItems": 2, "maxItems": 2}, {"uniqueItems": True},
                                                  {"items": {"minimum": 0}}]),
    "obj": (obj({"s": STR, "n": INT}, ["s"]), [{"required": ["n"]}, {"properties": {"s": {"maxLength": 2}}}, {"properties": {"extra": BOOL}},
                                                {"additionalProperties": False}, {"properties": {"n": {"minimum": 0}}, "required": ["n"]},
                                                # extensions adding an UNCONSTRAINED optional member (schema {}, true, or annotations only)
                                                {"properties": {"note": {}}}, {"properties": {"note": True}}, {"properties": {"note": {"description": "free-form"}}},
                                                {"properties": {"note": {}, "extra": BOOL}}, {"required": ["note"]}]),
    # a CLOSED base with patternProperties: a name required by the other operand that only a pattern permits stays required
    "obj_closed_pat": (dict(obj({"s": STR}, ["s"], additionalProperties=False), patternProperties={"^pay": {}}), [{"required": ["payload"]}, {"properties": {"n": INT}, "required": ["payload"]}]),
    # a base that already has bounds of its own: the refinement's bounds must INTERSECT with them
    "vec_min1": ({"type": "array", "items": INT, "minItems": 1}, [{"minItems": 2, "maxItems": 2}, {"minItems": 2}, {"maxItems": 3}, {"minItems": 0}, {"minItems": 3, "maxItems": 3}]),
    "vec_1_3": ({"type": "array", "items": INT, "minItems": 1, "maxItems": 3}, [{"minItems": 2, "maxItems": 2}, {"maxItems": 5}, {"minItems": 3}, {"maxItems": 1}]),
    "str_2_4": ({"type": "string", "minLength": 2, "maxLength": 4}, [{"minLength": 3}, {"maxLength": 3}, {"minLength": 1}, {"maxLength": 6}, {"minLength": 3, "maxLength": 3}]),
    # a base with a SCHEMA-valued additionalProperties (a struct with a flattened typed map): whatever the other branch adds, the typed
    # extras must survive the merge
    "obj_apT": (obj({"s": STR, "n": INT}, ["s"], additionalProperties=STR), [{"required": ["n"]}, {"properties": {"flag": BOOL}}, {"properties": {"s": {"maxLength": 2}}},
                                                                              {"properties": {"n": {"minimum": 0}}, "required": ["n"]}]),
}


def refine_family(tier):
    out = []
    for bname, (base, cons) in REFINE_BASES.items():
        for ci, con in enumerate(cons):
            for via in ("inline", "ref"):
                for typed in ((False, True) if tier != "quick" else (False,)):
                    c = copy.deepcopy(con)
                    if typed and isinstance(base.get("type"), str):
                        c = dict({"type": base["type"]}, **c)
                    first = {"$ref": "#/definitions/XBase"} if via == "ref" else copy.deepcopy(base)
                    ckeys = "+".join(sorted(con))
                    enf = ((bname in ("str", "str_max4", "str_2_4", "enum_abc", "enum_int", "enum_num") and "format" not in con and "minimum" not in con) or (bname == "int" and "enum" in con)
                           or (bname in ("vec_int", "vec_min1") and ckeys == "maxItems+minItems") or (bname == "vec_1_3" and ckeys == "maxItems" and con.get("maxItems") == 1)
                           or (bname in ("obj", "obj_apT") and ckeys in ("required", "additionalProperties")) or (bname == "obj_closed_pat" and ckeys == "required"))
                    sh = L("refine[%s:%s%d:%s%s]" % (bname, ckeys, ci, via, ":typed" if typed else ""), {"allOf": [first, c]},
                           ff="uniqueItems" not in con and "multipleOf" not in con and "not" not in con and "format" not in con, enf=enf, fam=True,
                           strish=bname in ("str", "str_max4", "str_2_4", "enum_abc"), defs={"XBase": copy.deepcopy(base)} if via == "ref" else None)
                    sh["tg"] = {"rf_base": bname, "rf_con": ckeys, "rf_via": via, "rf_typed": typed}
                    sh["sup"] = False   # allOf used to add constraints is neither schemars output nor documented: rejection is allowed (C01)
                    out.append(sh)
    return out


# ---- array family: item type x bounds, and tuple forms --------------------------------------------------------
def array_family(tier):
    out = []
    items = {"int": INT, "str_max2": {"type": "string", "maxLength": 2}, "struct": obj({"x": INT}, ["x"]), "nullable": {"type": ["integer", "null"]}}
    bounds = {"none": {}, "min1": {"minItems": 1}, "max2": {"maxItems": 2}, "1_3": {"minItems": 1, "maxItems": 3}, "2_2": {"minItems": 2, "maxItems": 2},
              "0_0": {"minItems": 0, "maxItems": 0}, "1_1": {"minItems": 1, "maxItems": 1}, "unique": {"uniqueItems": True},
              "unique_2_2": {"uniqueItems": True, "minItems": 2, "maxItems": 2}, "3_2": {"minItems": 3, "maxItems": 2}}
    for iname, it in items.items():
        if tier == "quick" and iname in ("struct", "nullable"):
            continue
        for bname, b in bounds.items():
            sh = L("arr[%s:%s]" % (iname, bname), dict({"type": "array", "items": copy.deepcopy(it)}, **b), ff=True,
                   enf=bname in ("none", "2_2", "1_1"), fam=True)   # only a FIXED length is a constraint typify represents (C05)
            sh["tg"] = {"ar_items": iname, "ar_bounds": bname}
            sh["sup"] = bname in ("none", "2_2", "1_1", "unique")   # Vec<T>, [T; N], HashSet<T> as schemars writes them
            out.append(sh)
    # tuple forms: items list of length 2 x additionalItems x bounds relative to the list length
    addl = {"absent": None, "false": False, "true": True, "int": INT}
    tb = {"none": {}, "2_2": {"minItems": 2, "maxItems": 2}, "1_2": {"minItems": 1, "maxItems": 2}, "2_3": {"minItems": 2, "maxItems": 3},
          "3_3": {"minItems": 3, "maxItems": 3}, "min2": {"minItems": 2}, "max2": {"maxItems": 2}, "1_1": {"minItems": 1, "maxItems": 1}}
    for aname, av in addl.items():
        for bname, b in tb.items():
            s = dict({"type": "array", "items": [copy.deepcopy(INT), copy.deepcopy(STR)]}, **b)
            if av is not None:
                s["additionalItems"] = copy.deepcopy(av)
            sh = L("tup[%s:%s]" % (aname, bname), s, ff=True, enf=bname in ("2_2", "3_3", "1_1"), fam=True)
            sh["tg"] = {"tu_addl": aname, "tu_bounds": bname}
            sh["sup"] = (aname, bname) == ("absent", "2_2")   # the tuple form schemars writes
            out.append(sh)
    return out


# ---- string-constraint family: every combination of minLength x maxLength x pattern ---------------------------
def string_family(tier):
    out = []
    for mn in (None, 0, 1, 2):
        for mx in (None, 0, 2, 3):
            for pat in (None, "^[a-z]*$"):
                if mn is None and mx is None and pat is None:
                    continue
                if mn is not None and mx is not None and mn > mx:
                    continue
                s = {"type": "string"}
                if mn is not None:
                    s["minLength"] = mn
                if mx is not None:
                    s["maxLength"] = mx
                if pat:
                    s["pattern"] = pat
                sh = L("strc[min=%s,max=%s,pat=%s]" % (mn, mx, "y" if pat else "n"), s, ff=True, enf=True, strish=True, fam=True)
                sh["tg"] = {"sc_min": mn, "sc_max": mx, "sc_pat": bool(pat)}
                out.append(sh)
                # the same constraints next to an ENUMERATION with members on both sides of each of them
                if mx != 0:
                    e = dict(s, enum=["a", "bb", "ccc", "B-1", "dddd"])
                    sh = L("strc_enum[min=%s,max=%s,pat=%s]" % (mn, mx, "y" if pat else "n"), e, ff=True, enf=True, strish=True, fam=True)
                    sh["tg"] = {"sc_min": mn, "sc_max": mx, "sc_pat": bool(pat), "sc_enum": True}
                    sh["sup"] = False
                    out.append(sh)
    return out


# ---- lifted allOf family: two object branches constraining ONE optional property p (member-level merge) -----------
LIFT = {
    "int": INT, "str": STR, "enum_ab": {"type": "string", "enum": ["a", "b"]}, "enum_bc": {"type": "string", "enum": ["b", "c"]},
    "str_max3": {"type": "string", "maxLength": 3}, "nullable_str": {"type": ["string", "null"]},
    "arr_int": {"type": "array", "items": INT}, "arr_min1": {"type": "array", "minItems": 1}, "tup2": {"type": "array", "items": [INT, INT], "minItems": 2, "maxItems": 2},
    "obj_x": {"type": "object", "properties": {"x": INT}}, "obj_y_req": {"type": "object", "properties": {"y": STR}, "required": ["y"]},
    "any": {}, "num": {"type": "number"}, "num_enum": {"type": "number", "enum": [1, 2.5, 10]}, "int_enum": {"type": "integer", "enum": [1, 2]}, "bool": BOOL,
    "u8": {"type": "integer", "format": "uint8", "minimum": 0}, "uuid": {"type": "string", "format": "uuid"},
    # bounds that MEET EXACTLY when the two branches are intersected (min == max is satisfiable)
    "arr_max1": {"type": "array", "maxItems": 1}, "map_min1": {"type": "object", "additionalProperties": INT, "minProperties": 1},
    "map_max1": {"type": "object", "additionalProperties": INT, "maxProperties": 1},
}
LIFT_QUICK = ["int", "str", "enum_ab", "enum_bc", "arr_int", "arr_min1", "tup2", "obj_x", "any", "num", "num_enum", "int_enum", "arr_max1", "map_min1", "map_max1"]


def lift_family(tier):
    import itertools as _it
    out = []
    names = LIFT_QUICK if tier == "quick" else list(LIFT)
    for a, b in _it.product(names, repeat=2):
        if a == b and a not in ("num_enum", "enum_ab", "obj_x", "arr_int"):
            continue
        if "any" in (a, b) and (a.startswith("obj_") or b.startswith("obj_")):
            continue   # the universe of `{}` holds objects with members the object branch does not declare; C03 only speaks about declared data
        fa = obj({"name": STR, "p": copy.deepcopy(LIFT[a])}, ["name"])
        fb = obj({"p": copy.deepcopy(LIFT[b])})
        sh = L("lift[%s,%s]" % (a, b), {"allOf": [fa, fb]}, ff=True, enf=False, fam=True)
        sh["tg"] = {"lf_a": a, "lf_b": b}
        sh["sup"] = False
        sh["only_ctx"] = ["def"] if tier == "quick" else ["def", "member_opt"]
        out.append(sh)
    return out


def shapes_depth2(tier):
    """(L ∪ K(default leaves)) — list of shape dicts."""
    out = []
    if tier == "quick":
        # every leaf is in the quick tier; the ones outside the core list are placed in two contexts only
        leaves = [LEAF[i] for i in QUICK_LEAVES] + [dict(l, only_ctx=["def", "member_opt"], fam=True) for l in LEAVES if l["id"] not in QUICK_LEAVES]
    else:
        leaves = LEAVES
    out.extend(leaves)
    kleaves = ["string", "str_max2"] if tier == "quick" else ["string", "integer", "number", "str_max2", "enum_ab", "uuid", "any"]
    seen = set()
    for lid in kleaves:
        for k in composites(LEAF[lid]):
            if k["id"] not in seen:
                seen.add(k["id"])
                out.append(k)
    out.extend(SOLO_COMPOSITES)
    out.extend(tagged_family(tier))
    out.extend(member_family(tier))
    out.extend(union_family(tier))
    out.extend(refine_family(tier))
    out.extend(array_family(tier))
    out.extend(string_family(tier))
    out.extend(lift_family(tier))
    return out


def place(shape, ctx):
    """-> dict(id, doc, target, ff, enf) or None when the context cannot hold the shape."""
    if shape.get("recursive") and ctx["id"] in ("root", "ref_alias", "ref_member", "ref_nullable", "allof1"):
        return None   # these contexts do not define T as something the shape can sensibly recurse through
    if ctx["id"] in ("nullable_oneof", "ref_nullable"):
        from ..universe import _admits_null
        if _admits_null(shape["schema"], {}):
            return None   # null would match both branches of the wrapping union: not a coherent schema
        if "not" in shape["schema"] and "type" not in shape["schema"]:
            # an untyped negation admits whatever its operand rejects - null included, unless the operand accepts null
            import jsonschema
            if jsonschema.Draft7Validator({"allOf": [shape["schema"]], "definitions": shape.get("defs") or {}}).is_valid(None):
                return None
    doc = ctx["build"](copy.deepcopy(shape["schema"]))
    if doc is None:
        return None
    if shape.get("defs"):
        doc.setdefault("definitions", {})
        doc["definitions"].update(copy.deepcopy(shape["defs"]))
    target = None if ctx["id"] == "root" else "T"
    return {"id": "%s@%s" % (shape["id"], ctx["id"]), "doc": doc, "target": target, "ff": shape["ff"] and ctx["ff"],
            "enf": shape["enf"] and ctx["enf"], "strish": shape.get("strish", False) and ctx["id"] in ("def", "ref_alias", "allof1"),
            "shape": shape["id"], "ctx": ctx["id"], "tg": shape.get("tg"), "sup": shape.get("sup", True), "depth": shape.get("depth")}


def space_depth2(tier, contexts=None):
    ctxs = contexts or (QUICK_CONTEXTS if tier == "quick" else [c["id"] for c in CONTEXTS])
    out = []
    fam_ctx = ["def", "member_opt"] if tier == "quick" else ["def", "member_opt", "vec_item", "ext_payload", "root"]
    for sh in shapes_depth2(tier):
        for cid in ctxs:
            if sh.get("fam") and cid not in (sh.get("only_ctx") or fam_ctx):
                continue   # the systematic families are large: they are placed in a covering subset of the contexts
            p = place(sh, CONTEXT[cid])
            if p is not None:
                out.append(p)
    return out


def space_depth3(tier):
    """X × K × L' with the reduced leaf menu."""
    out = []
    leaves = REDUCED_LEAVES if tier != "quick" else ["u8", "enum_ab"]
    ctxs = ["def", "member_opt", "vec_item", "ext_payload", "ref_member"] if tier != "quick" else ["member_opt"]
    seen = set()
    for lid in leaves:
        for k in composites(LEAF[lid]):
            for cid in ctxs:
                p = place(k, CONTEXT[cid])
                if p and p["id"] not in seen:
                    seen.add(p["id"])
                    out.append(p)
    return out


def pairs(tier):
    """two shapes side by side in one struct / one enum / one definitions map (shared inline names, type_to_id sharing,
    tag inference)."""
    out = []
    ids = ["string", "str_max2", "enum_ab", "uuid", "any", "u8"] if tier != "quick" else ["str_max2", "enum_ab"]
    shapes = [LEAF[i] for i in ids]
    comps = []
    for lid in (["str_max2", "integer"] if tier != "quick" else ["str_max2"]):
        comps += [k for k in composites(LEAF[lid]) if k["id"].split("(")[0] in
                  ("struct_req", "struct_opt", "vec", "tuple2", "oneof_null", "type_null", "ext", "int_tag", "map", "array2")]
    allsh = shapes + comps
    for i, a in enumerate(allsh):
        for b in allsh[i:]:
            ff = a["ff"] and b["ff"]
            enf = a["enf"] and b["enf"]
            pid = "%s+%s" % (a["id"], b["id"])
            out.append({"id": pid + "@struct", "doc": _doc({"T": obj({"p": a["schema"], "q": b["schema"]}, ["p"])}), "target": "T", "ff": ff, "enf": enf,
                        "strish": False, "shape": pid, "ctx": "pair_struct"})
            out.append({"id": pid + "@ext", "doc": _doc({"T": {"oneOf": [obj({"P": a["schema"]}, ["P"], additionalProperties=False),
                                                                       obj({"Q": b["schema"]}, ["Q"], additionalProperties=False)]}}),
                        "target": "T", "ff": ff, "enf": enf, "strish": False, "shape": pid, "ctx": "pair_ext"})
            out.append({"id": pid + "@defs", "doc": _doc({"T": obj({"p": {"$ref": "#/definitions/A"}, "q": {"$ref": "#/definitions/B"}}, ["p"]),
                                                          "A": a["schema"], "B": b["schema"]}),
                        "target": "T", "ff": ff, "enf": enf, "strish": False, "shape": pid, "ctx": "pair_defs"})
    return out


def twins(tier):
    """near-twin unnamed types side by side in one struct (typify shares unnamed types through a map keyed by their details: two
    different instantiations of one constructor must stay different): K(A) next to K(B) for every constructor K and leaf pairs (A, B)"""
    out = []
    leafpairs = [("integer", "string"), ("u8", "u16"), ("string", "str_max2"), ("i64", "u64")] if tier != "quick" else [("integer", "string"), ("u8", "u16")]
    K = {
        "vec": lambda s: {"type": "array", "items": s},
        "set": lambda s: {"type": "array", "items": s, "uniqueItems": True},
        "map": lambda s: {"type": "object", "additionalProperties": s},
        "nullable": lambda s: {"oneOf": [s, {"type": "null"}]},
        "array2": lambda s: {"type": "array", "items": s, "minItems": 2, "maxItems": 2},
        "tuple_bool": lambda s: {"type": "array", "items": [s, BOOL], "minItems": 2, "maxItems": 2},
        "vec_vec": lambda s: {"type": "array", "items": {"type": "array", "items": s}},
    }
    for kn, k in K.items():
        for a, b in leafpairs:
            for x, y in ((a, b), (b, a)):
                sa, sb = LEAF[x]["schema"], LEAF[y]["schema"]
                doc = _doc({"T": obj({"p": k(copy.deepcopy(sa)), "q": k(copy.deepcopy(sb)), "r": k(copy.deepcopy(sa))}, ["p", "q"])})
                out.append({"id": "twins[%s:%s,%s]@struct" % (kn, x, y), "doc": doc, "target": "T", "ff": True, "enf": kn not in ("set", "map"),
                            "strish": False, "shape": "twins:" + kn, "ctx": "twins"})
    # same members, other arrangement: tuple order, array length
    extra = {
        "tuple_swap": obj({"p": {"type": "array", "items": [INT, STR], "minItems": 2, "maxItems": 2}, "q": {"type": "array", "items": [STR, INT], "minItems": 2, "maxItems": 2}}, ["p", "q"]),
        "array_len": obj({"p": {"type": "array", "items": INT, "minItems": 2, "maxItems": 2}, "q": {"type": "array", "items": INT, "minItems": 3, "maxItems": 3}}, ["p", "q"]),
        "tuple_len": obj({"p": {"type": "array", "items": [INT, INT], "minItems": 2, "maxItems": 2}, "q": {"type": "array", "items": [INT, INT, INT], "minItems": 3, "maxItems": 3}}, ["p", "q"]),
        "vec_vs_set": obj({"p": {"type": "array", "items": INT}, "q": {"type": "array", "items": INT, "uniqueItems": True}}, ["p", "q"]),
        "map_vs_mapany": obj({"p": {"type": "object", "additionalProperties": INT}, "q": {"type": "object"}}, ["p", "q"]),
        "opt_vs_optopt": obj({"p": {"type": ["integer", "null"]}, "q": {"oneOf": [{"type": ["integer", "null"]}, {"type": "string"}]}}),
    }
    for en, sch in extra.items():
        out.append({"id": "twins[%s]@struct" % en, "doc": _doc({"T": sch}), "target": "T", "ff": True, "enf": en not in ("vec_vs_set", "map_vs_mapany"),
                    "strish": False, "shape": "twins:" + en, "ctx": "twins"})
    return out



def order_pairs(tier):
    """two members in BOTH orders (conversion follows member order): flags and caches that one conversion sets must survive the next one"""
    out = []
    ids = ["str_pat", "str_max2", "uuid", "string", "date", "any", "integer", "enum_ab", "str_pat_max"]
    for a in ids:
        for b in ids:
            if a == b:
                continue
            doc = _doc({"T": obj({"p": copy.deepcopy(LEAF[a]["schema"]), "q": copy.deepcopy(LEAF[b]["schema"])}, ["p"])})
            out.append({"id": "order[%s,%s]@struct" % (a, b), "doc": doc, "target": "T", "ff": LEAF[a]["ff"] and LEAF[b]["ff"], "enf": LEAF[a]["enf"] and LEAF[b]["enf"],
                        "strish": False, "shape": "order:%s,%s" % (a, b), "ctx": "order"})
            if tier != "quick" or (a, b) in (("str_pat", "str_max2"), ("uuid", "string"), ("date", "str_max2"), ("any", "integer")):
                ddoc = _doc({"A": copy.deepcopy(LEAF[a]["schema"]), "B": copy.deepcopy(LEAF[b]["schema"]), "T": obj({"x": {"$ref": "#/definitions/A"}, "y": {"$ref": "#/definitions/B"}})})
                out.append({"id": "order[%s,%s]@defs" % (a, b), "doc": ddoc, "target": "T", "ff": LEAF[a]["ff"] and LEAF[b]["ff"], "enf": False,
                            "strish": False, "shape": "order:%s,%s" % (a, b), "ctx": "order_defs"})
    return out


def _no_duplicate_ids():
    seen = set()
    for x in LEAVES + SOLO_COMPOSITES:
        if x["id"] in seen:
            raise AssertionError("duplicate shape id " + x["id"])
        seen.add(x["id"])


_no_duplicate_ids()
