"""setup: oracle self-check, warm the batch target dir for both `cargo build` and `cargo check`."""
from . import adapter, batch, oracle
from .common import log


def main():
    n = oracle.self_check()
    log("oracle self-check ok (%d triples)" % n)
    adapter.build()
    doc = {"definitions": {"A": {"type": "object", "properties": {"x": {"type": "string", "maxLength": 2},
                                                                   "u": {"type": "string", "format": "uuid"},
                                                                   "d": {"type": "string", "format": "date-time"}}}}}
    ans = adapter.run_jobs([{"id": "w", "settings": {"struct_builder": True}, "ops": [{"root": doc}], "want": ["pretty"]}])
    for mode in ("build", "check"):
        b = batch.Batch("warm_" + mode, [batch.Case("w", ans["w"]["pretty"], {"A": ["de"]})], mode=mode)
        r = b.compile()
        assert r["w"]["ok"], r
        if mode == "build":
            out = b.run([("w", "A", "de", '{"x":"ab"}'), ("w", "A", "de", '{"x":"abc"}')])
            assert out[0]["ok"] and not out[1]["ok"], out
        b.cleanup()
    from .props import C04
    C04.build_origin(C04.universes("quick")[:3], "warm")
    from .props import C15
    C15.warm()
    log("batch target warmed")
