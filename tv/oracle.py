"""Validity oracle: python jsonschema Draft 7, independent of typify (DESIGN §2.3).

Adjustments dictated by C02's text: recognised integer formats are read as ranges; the six recognised
string formats are asserted with stdlib predicates; unknown formats are annotations.
"""
import copy
import datetime
import ipaddress
import re
import uuid

import jsonschema
from jsonschema import Draft7Validator, FormatChecker

INT_FORMATS = {
    "int8": (-2 ** 7, 2 ** 7 - 1), "uint8": (0, 2 ** 8 - 1),
    "int16": (-2 ** 15, 2 ** 15 - 1), "uint16": (0, 2 ** 16 - 1),
    "int32": (-2 ** 31, 2 ** 31 - 1), "uint32": (0, 2 ** 32 - 1),
    "int": (-2 ** 31, 2 ** 31 - 1), "uint": (0, 2 ** 32 - 1),
    "int64": (-2 ** 63, 2 ** 63 - 1), "uint64": (0, 2 ** 64 - 1),
}
I64 = (-2 ** 63, 2 ** 63 - 1)

_fc = FormatChecker(formats=())


@_fc.checks("uuid")
def _uuid(v):
    if not isinstance(v, str):
        return True
    try:
        uuid.UUID(v)
        return bool(re.fullmatch(r"[0-9a-fA-F]{8}-[0-9a-fA-F]{4}-[0-9a-fA-F]{4}-[0-9a-fA-F]{4}-[0-9a-fA-F]{12}", v))
    except Exception:
        return False


@_fc.checks("date")
def _date(v):
    if not isinstance(v, str):
        return True
    if not re.fullmatch(r"\d{4}-\d{2}-\d{2}", v):
        return False
    try:
        datetime.date.fromisoformat(v)
        return True
    except Exception:
        return False


@_fc.checks("date-time")
def _datetime(v):
    if not isinstance(v, str):
        return True
    m = re.fullmatch(r"(\d{4}-\d{2}-\d{2})T(\d{2}):(\d{2}):(\d{2})(\.\d+)?(Z|[+-]\d{2}:\d{2})", v)
    if not m:
        return False
    try:
        datetime.date.fromisoformat(m.group(1))
    except Exception:
        return False
    return int(m.group(2)) < 24 and int(m.group(3)) < 60 and int(m.group(4)) < 60


@_fc.checks("ip")
def _ip(v):
    if not isinstance(v, str):
        return True
    try:
        ipaddress.ip_address(v)
        return True
    except Exception:
        return False


@_fc.checks("ipv4")
def _ipv4(v):
    if not isinstance(v, str):
        return True
    try:
        ipaddress.IPv4Address(v)
        return True
    except Exception:
        return False


@_fc.checks("ipv6")
def _ipv6(v):
    if not isinstance(v, str):
        return True
    try:
        ipaddress.IPv6Address(v)
        return True
    except Exception:
        return False


def rewrite(schema, clip_i64=True):
    """Integer formats -> minimum/maximum ranges (intersected with explicit bounds by jsonschema itself,
    through allOf). An `integer` node without format and without a bound on a side is clipped to the i64
    range on that side (the statement names i64 as the accepted fallback for 'no information')."""
    if isinstance(schema, bool) or not isinstance(schema, dict):
        return schema
    out = {}
    for k, v in schema.items():
        if k in ("properties", "patternProperties", "definitions", "dependencies"):
            out[k] = {kk: rewrite(vv, clip_i64) for kk, vv in v.items()} if isinstance(v, dict) else v
        elif k in ("items",):
            out[k] = [rewrite(x, clip_i64) for x in v] if isinstance(v, list) else rewrite(v, clip_i64)
        elif k in ("allOf", "anyOf", "oneOf"):
            out[k] = [rewrite(x, clip_i64) for x in v]
        elif k in ("additionalProperties", "additionalItems", "not", "contains", "propertyNames", "if", "then", "else"):
            out[k] = rewrite(v, clip_i64)
        else:
            out[k] = copy.deepcopy(v)
    t = schema.get("type")
    is_int = t == "integer" or (isinstance(t, list) and "integer" in t and "number" not in t)
    if is_int:
        fmt = schema.get("format")
        extra = None
        if fmt in INT_FORMATS:
            lo, hi = INT_FORMATS[fmt]
            extra = {"minimum": lo, "maximum": hi}
        elif clip_i64:
            extra = {}
            if "minimum" not in schema and "exclusiveMinimum" not in schema:
                extra["minimum"] = I64[0]
            if "maximum" not in schema and "exclusiveMaximum" not in schema:
                extra["maximum"] = I64[1]
        if extra:
            # applies to integers only (a [integer,null] node must still admit null)
            out.setdefault("allOf", [])
            out["allOf"] = list(out["allOf"]) + [{"if": {"type": "integer"}, "then": extra}]
    return out


class Oracle:
    def __init__(self, root_doc, clip_i64=True):
        """root_doc: a complete schema document (may carry `definitions`)."""
        self.doc = rewrite(root_doc, clip_i64)
        Draft7Validator.check_schema(self.doc)
        self.validator = Draft7Validator(self.doc, format_checker=_fc)
        self._sub = {}

    def valid(self, instance):
        return self.validator.is_valid(instance)

    def valid_def(self, name, instance):
        """validity against #/definitions/<name> with refs resolved inside the document"""
        v = self._sub.get(name)
        if v is None:
            doc = {"$ref": "#/definitions/%s" % name.replace("~", "~0").replace("/", "~1").replace("%", "%25"),
                   "definitions": self.doc.get("definitions", {})}
            v = Draft7Validator(doc, format_checker=_fc)
            self._sub[name] = v
        return v.is_valid(instance)


def valid(schema, instance, clip_i64=True):
    return Oracle(schema, clip_i64).valid(instance)


# fixed self-check table (start-up guard against an oracle that accepts or rejects everything)
_SELF = [
    ({"type": "string", "maxLength": 2}, "ab", True), ({"type": "string", "maxLength": 2}, "abc", False),
    ({"type": "string", "maxLength": 1}, "\U0001F600", True), ({"type": "string", "minLength": 2}, "é", False),
    ({"type": "integer", "format": "uint8"}, 255, True), ({"type": "integer", "format": "uint8"}, 256, False),
    ({"type": "integer", "format": "uint8"}, -1, False), ({"type": "integer", "format": "int8", "minimum": 0}, -1, False),
    ({"type": "integer"}, 2 ** 63, False), ({"type": "integer"}, 2 ** 63 - 1, True),
    ({"type": "integer", "minimum": 0}, 2 ** 64, False), ({"type": "integer", "minimum": 0}, 2 ** 62, True),
    ({"type": ["integer", "null"], "format": "uint8"}, None, True),
    ({"type": "string", "format": "uuid"}, "00000000-0000-0000-0000-000000000000", True),
    ({"type": "string", "format": "uuid"}, "x", False),
    ({"type": "string", "format": "date"}, "2020-02-30", False), ({"type": "string", "format": "date"}, "2020-02-29", True),
    ({"type": "string", "format": "date-time"}, "2020-01-01T00:00:00Z", True),
    ({"type": "string", "format": "date-time"}, "2020-01-01", False),
    ({"type": "string", "format": "ipv4"}, "1.2.3.4", True), ({"type": "string", "format": "ipv4"}, "::1", False),
    ({"type": "string", "format": "ipv6"}, "::1", True), ({"type": "string", "format": "ip"}, "::1", True),
    ({"type": "string", "format": "ip"}, "zz", False), ({"type": "string", "format": "wibble"}, "zz", True),
    ({"type": "object", "required": ["a"]}, {}, False), ({"type": "object", "additionalProperties": False}, {"a": 1}, False),
    ({"oneOf": [{"type": "string"}, {"type": "null"}]}, None, True), ({"oneOf": [{"type": "string"}, {"type": "string"}]}, "a", False),
    ({"$ref": "#/definitions/A", "definitions": {"A": {"enum": [1]}}}, 1, True),
    ({"$ref": "#/definitions/A", "definitions": {"A": {"enum": [1]}}}, 2, False),
    ({"type": "array", "items": [{"type": "string"}], "minItems": 1, "maxItems": 1}, ["a"], True),
    ({"type": "array", "items": [{"type": "string"}], "minItems": 1, "maxItems": 1}, [], False),
    ({"type": "string", "pattern": "^[a-z]+$"}, "abc", True), ({"type": "string", "pattern": "^[a-z]+$"}, "aBc", False),
    ({"not": {"enum": ["a"]}, "type": "string"}, "a", False), ({"not": {"enum": ["a"]}, "type": "string"}, "b", True),
]


def self_check():
    from .common import MachineryError
    for schema, inst, want in _SELF:
        got = valid(schema, inst)
        if got != want:
            raise MachineryError("oracle self-check failed: %r %r -> %r, want %r" % (schema, inst, got, want))
    return len(_SELF)
