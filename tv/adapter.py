"""Build and drive tvadapter (typify's public API over JSON lines), 16 processes in parallel."""
import json
import os
import subprocess
import tempfile
from concurrent.futures import ThreadPoolExecutor

from .common import CARGO_ENV, ENGINE, NPROC, TOOLCHAIN, MachineryError, ensure_dir, log, run, WORK

_BIN = os.environ.get("VERIF_ADAPTER_BIN") or os.path.join(ENGINE, "target", "debug", "tvadapter")   # override: development aid (coverage build)
_built = bool(os.environ.get("VERIF_ADAPTER_BIN"))
JOB_TIMEOUT_S = float(os.environ.get("VERIF_JOB_TIMEOUT", "90"))


def build(features=None):
    """(Re)build the adapter against /repo's current working tree. No-op when nothing changed."""
    global _built
    if _built and not features:
        return _BIN
    cmd = ["cargo", TOOLCHAIN, "build", "--offline", "-p", "tvadapter"]
    if features:
        cmd += ["--features", features]
    p = run(cmd, cwd=ENGINE)
    if p.returncode != 0:
        raise MachineryError("adapter build failed (does /repo still compile?):\n" + p.stderr.decode(errors="replace")[-6000:])
    _built = True
    return _BIN


def _run_chunk(jobs, env=None):
    """Run one adapter process over a list of jobs; on abnormal exit attribute the abort to the job
    that was in flight and continue with the remainder in a fresh process."""
    answers = {}
    pending = list(jobs)
    timed_out_before = False
    while pending:
        data = "\n".join(json.dumps(j) for j in pending) + "\n"
        # a job takes milliseconds; a subject that never returns (an unbounded loop in the code under test) must end in a verdict, not in a
        # hung check: the chunk gets a generous wall budget, the job in flight when it expires is reported as aborted (timeout)
        budget = (JOB_TIMEOUT_S if not timed_out_before else JOB_TIMEOUT_S / 3.0) + 0.25 * len(pending)
        proc = subprocess.Popen([_BIN], stdin=subprocess.PIPE, stdout=subprocess.PIPE, stderr=subprocess.PIPE, env=env or os.environ)
        timed_out = False
        try:
            so, se = proc.communicate(data.encode(), timeout=budget)
        except subprocess.TimeoutExpired:
            proc.kill()
            so, se = proc.communicate()
            timed_out = timed_out_before = True

        class _P:
            pass
        p = _P()
        p.stdout, p.stderr, p.returncode = so, (se + (b"\n[verif] killed after %ds without finishing the job in flight" % int(budget) if timed_out else b"")), (proc.returncode if not timed_out else -9)
        lines = [l for l in p.stdout.decode("utf-8", errors="replace").split("\n") if l.strip()]
        n_ok = 0
        for l in lines:
            try:
                a = json.loads(l)
            except Exception:
                break  # torn last line of an aborted process
            answers[a.get("id")] = a
            n_ok += 1
        if n_ok >= len(pending):
            break
        # the process died while working on pending[n_ok]
        culprit = pending[n_ok]
        answers[culprit["id"]] = {"id": culprit["id"], "abort": True, "returncode": p.returncode, "timeout": timed_out,
                                  "stderr": p.stderr.decode(errors="replace")[-500:]}
        pending = pending[n_ok + 1:]
    return answers


def run_jobs(jobs, nproc=None, env=None):
    """jobs: list of dicts with unique 'id'. Returns {id: answer}."""
    build()
    nproc = nproc or NPROC
    ids = [j["id"] for j in jobs]
    if len(set(ids)) != len(ids):
        raise MachineryError("duplicate job ids")
    if not jobs:
        return {}
    nchunks = min(len(jobs), nproc * 4)
    chunks = [jobs[i::nchunks] for i in range(nchunks)]
    out = {}
    with ThreadPoolExecutor(max_workers=nproc) as ex:
        for res in ex.map(lambda c: _run_chunk(c, env), chunks):
            out.update(res)
    missing = [i for i in ids if i not in out]
    if missing:
        raise MachineryError("adapter returned no answer for %d jobs, e.g. %s" % (len(missing), missing[:3]))
    return out
