"""C09 — allOf means intersection, independent of subschema order.
Space: a fragment menu (object fragments with overlapping/disjoint properties, required subsets, additionalProperties
absent/true/false/schema, $ref to constrained definitions, string enums with overlapping/disjoint members, type
restrictions, array item schemas, a nested oneOf with disjoint branches); every ordered pair (quick: 8 fragments;
thorough: all) and every ordered triple of a sub-menu, i.e. every permutation of every unordered pair/triple.
Candidates: the instance universe of the allOf schema (per-fragment instances, member-wise unions, mutants).
Oracle: (i) valid(allOf, v) => accepted; (ii) acceptance and round-trip vectors equal across all permutations of one
multiset (differential); (iii) no candidate valid and the generated type uninhabited => nothing accepted; a permutation
that is rejected / uninhabited while another is inhabited is a violation of (ii)."""
import itertools

from .. import wire
from ..common import MachineryError, canon
from ..runner import Result, Violation

INT = {"type": "integer"}
STR = {"type": "string"}
DEFS = {"Base": {"type": "object", "properties": {"c": {"type": "boolean"}}, "required": ["c"]},
        "Closed": {"type": "object", "properties": {"a": INT}, "additionalProperties": False},
        "BaseAp": {"type": "object", "properties": {"c": {"type": "boolean"}}, "required": ["c"], "additionalProperties": INT},
        "En": {"type": "string", "enum": ["x", "y"]},
        # definitions that are themselves allOf groups over the shared Base (a diamond when two of them meet)
        "Named": {"allOf": [{"$ref": "#/definitions/Base"}, {"type": "object", "properties": {"a": INT}, "required": ["a"]}]},
        "Aged": {"allOf": [{"$ref": "#/definitions/Base"}, {"type": "object", "properties": {"b": STR}, "required": ["b"]}]},
        "PQ": {"oneOf": [{"type": "object", "properties": {"p": STR}, "required": ["p"]}, {"type": "object", "properties": {"q": INT}, "required": ["q"]}]}}
FRAGS = {
    "a_opt": {"type": "object", "properties": {"a": INT}},
    "a_req": {"type": "object", "properties": {"a": INT}, "required": ["a"]},
    "b_req": {"type": "object", "properties": {"b": STR}, "required": ["b"]},
    "ab_closed": {"type": "object", "properties": {"a": INT, "b": STR}, "additionalProperties": False},
    "a_aptrue": {"type": "object", "properties": {"a": INT}, "additionalProperties": True},
    "ap_str": {"type": "object", "additionalProperties": STR},
    "ref_base": {"$ref": "#/definitions/Base"},
    "ref_closed": {"$ref": "#/definitions/Closed"},
    "ref_base_ap": {"$ref": "#/definitions/BaseAp"},   # same members as Base plus a schema-valued additionalProperties
    "obj": {"type": "object"},
    "req_a_only": {"type": "object", "required": ["a"]},
    "extra_req": {"type": "object", "properties": {"extra": INT}, "required": ["extra"]},
    "b_enum_xy": {"type": "object", "properties": {"b": {"type": "string", "enum": ["x", "y"]}}},
    "b_enum_yz": {"type": "object", "properties": {"b": {"type": "string", "enum": ["y", "z"]}}},
    "a_str": {"type": "object", "properties": {"a": STR}},
    "oneof_pq": {"oneOf": [{"type": "object", "properties": {"p": STR}, "required": ["p"]}, {"type": "object", "properties": {"q": INT}, "required": ["q"]}]},
    "str": {"type": "string"},
    "str_enum_ab": {"type": "string", "enum": ["a", "b"]},
    "enum_bc": {"enum": ["b", "c"]},
    "ref_en": {"$ref": "#/definitions/En"},
    "arr_int": {"type": "array", "items": INT},
    "arr_any": {"type": "array"},
    "arr_min2": {"type": "array", "items": INT, "minItems": 2},
    "tup1_ai_str": {"type": "array", "items": [INT], "additionalItems": STR},
    "tup1_ai_false": {"type": "array", "items": [INT], "additionalItems": False},
    "tup2": {"type": "array", "items": [INT, INT], "minItems": 2, "maxItems": 2},
    "tup1_open": {"type": "array", "items": [INT]},   # no additionalItems: positions past the list are unconstrained
    "tup3_any": {"type": "array", "items": [INT, {}, {}], "minItems": 3, "maxItems": 3},
    # fragments for the arms of merge.rs / validate.rs a coverage run of the quick tier found unexercised
    "ty_str_null": {"type": ["string", "null"]}, "ty_int_str": {"type": ["integer", "string"]}, "ty_obj_null": {"type": ["object", "null"]},
    "fmt_ip": {"type": "string", "format": "ip"}, "fmt_ipv4": {"type": "string", "format": "ipv4"}, "fmt_uuid": {"type": "string", "format": "uuid"},
    "const_a": {"const": "a"}, "enum_mixed": {"enum": ["a", 1, None]},
    "not_req_a": {"not": {"required": ["a"]}}, "not_anyof_req": {"not": {"anyOf": [{"required": ["a"]}, {"required": ["extra"]}]}},
    "anyof_req": {"anyOf": [{"required": ["a"]}, {"required": ["b"]}]},
    "arr_contains": {"type": "array", "contains": INT}, "arr_max1": {"type": "array", "maxItems": 1},
    "arr_contains_same": {"type": "array", "contains": INT, "minItems": 1}, "arr_contains_str": {"type": "array", "contains": STR},
    # additionalProperties / additionalItems written out as the literal `true` (the default, spelled explicitly)
    "ap_true": {"type": "object", "additionalProperties": True}, "a_ap_true": {"type": "object", "properties": {"a": INT}, "additionalProperties": True},
    "req_extra_ap_true": {"type": "object", "required": ["extra"], "additionalProperties": True},
    "tup1_ai_true": {"type": "array", "items": [INT], "additionalItems": True},
    "ty_bool": {"type": "boolean"}, "enum_bool_a": {"enum": [True, "a"]},
    "ref_oneof": {"$ref": "#/definitions/PQ"}, "minprops2": {"type": "object", "minProperties": 2}, "maxprops1": {"type": "object", "maxProperties": 1},
}
# string formats typify maps to native types, reconciled pairwise by the merge (ip covers ipv4 and ipv6); paired among themselves and with the
# plain / enumerated string fragments only
FMT_FRAGS = {"fmt_ipv6": {"type": "string", "format": "ipv6"}, "fmt_date": {"type": "string", "format": "date"}, "fmt_datetime": {"type": "string", "format": "date-time"},
             "fmt_unknown": {"type": "string", "format": "wibble"}, "fmt_only_ip": {"format": "ip"}}
# operands that are allOf GROUPS (in-line or behind a $ref): paired among themselves and with the basic object fragments
GROUP_FRAGS = {"ref_named": {"$ref": "#/definitions/Named"}, "ref_aged": {"$ref": "#/definitions/Aged"},
               "grp_a_b": {"allOf": [{"type": "object", "properties": {"a": INT}}, {"type": "object", "properties": {"b": STR}, "required": ["b"]}]},
               "grp_extra_c": {"allOf": [{"type": "object", "properties": {"extra": INT}, "required": ["extra"]}, {"$ref": "#/definitions/Base"}]}}
# a oneOf of THREE branches one of which (a string) cannot meet an object operand: first, in the middle, last
_BX = {"type": "object", "properties": {"x": INT, "u": STR}, "required": ["x"]}
_BY = {"type": "object", "properties": {"y": {"type": "boolean"}, "v": STR}, "required": ["y"]}
GROUP_FRAGS.update({"oneof3_sxy": {"oneOf": [STR, _BX, _BY]}, "oneof3_xsy": {"oneOf": [_BX, STR, _BY]}, "oneof3_xys": {"oneOf": [_BX, _BY, STR]}})
ONEOF3_WITH = ["oneof3_sxy", "oneof3_xsy", "oneof3_xys", "a_req", "ref_base", "extra_req", "obj"]
GROUP_WITH = ["ref_named", "ref_aged", "grp_a_b", "grp_extra_c", "a_req", "b_req", "ref_base", "ab_closed", "extra_req"]
# integer formats of equal / different width and signedness (the intersection of uint8 and int8 is 0..=127 in either order)
INTFMT_FRAGS = {"u8": {"type": "integer", "format": "uint8", "minimum": 0}, "i8": {"type": "integer", "format": "int8"}, "u16": {"type": "integer", "format": "uint16", "minimum": 0}, "i16": {"type": "integer", "format": "int16"},
                "u32": {"type": "integer", "format": "uint32", "minimum": 0}, "i32": {"type": "integer", "format": "int32"}, "i64": {"type": "integer", "format": "int64"},
                "int_0_100": {"type": "integer", "minimum": 0, "maximum": 100}}
INTFMT_GROUP = ["u8", "i8", "u16", "i16", "u32", "i32", "i64", "int_0_100"]
FMT_GROUP = ["fmt_ip", "fmt_ipv4", "fmt_ipv6", "fmt_uuid", "fmt_date", "fmt_datetime", "fmt_unknown", "fmt_only_ip", "str", "str_enum_ab"]
QUICK = ["a_opt", "a_req", "b_req", "ab_closed", "ref_base", "ref_closed", "extra_req", "b_enum_xy", "b_enum_yz", "str_enum_ab", "enum_bc"]
TRIPLE = ["a_opt", "a_req", "a_str", "b_req", "ab_closed", "ref_base", "extra_req", "b_enum_xy", "b_enum_yz", "ap_str", "oneof_pq", "req_a_only"]
TRIPLE_QUICK = ["a_opt", "a_str", "a_req", "b_req", "b_enum_xy", "b_enum_yz"]   # conflicting / compatible declarations of one member, then a third operand that mentions it


# leaf fragments lifted to ONE optional property p of two object branches: allOf[{p: A}, {p: B}] exercises the recursive (member-level) merge
LIFT = {
    "int": INT, "str": STR, "enum_ab": {"type": "string", "enum": ["a", "b"]}, "enum_bc": {"type": "string", "enum": ["b", "c"]},
    "str_max3": {"type": "string", "maxLength": 3}, "nullable_str": {"type": ["string", "null"]},
    "arr_int": {"type": "array", "items": INT}, "arr_min1": {"type": "array", "minItems": 1}, "tup2": {"type": "array", "items": [INT, INT], "minItems": 2, "maxItems": 2},
    "obj_x": {"type": "object", "properties": {"x": INT}}, "obj_y_req": {"type": "object", "properties": {"y": STR}, "required": ["y"]},
    "ref_en": {"$ref": "#/definitions/En"}, "ref_base": {"$ref": "#/definitions/Base"}, "any": {},
    "num": {"type": "number"}, "num_enum": {"type": "number", "enum": [1, 2.5, 10]}, "int_enum": {"type": "integer", "enum": [1, 2]}, "bool": {"type": "boolean"},
    "u8": {"type": "integer", "format": "uint8", "minimum": 0}, "uuid": {"type": "string", "format": "uuid"}, "enum_strnull": {"enum": ["a", None]},
}
LIFT_QUICK = ["int", "str", "enum_ab", "enum_bc", "arr_int", "arr_min1", "tup2", "obj_x", "ref_en", "any", "num", "num_enum", "int_enum"]


def lifted_cases(tier):
    out = []
    names = LIFT_QUICK if tier == "quick" else list(LIFT)
    for a, b in itertools.permutations(names, 2):
        for req in ((False,) if tier == "quick" else (False, True)):
            fa = {"type": "object", "properties": {"name": STR, "p": LIFT[a]}, "required": ["name"]}
            fb = {"type": "object", "properties": {"p": LIFT[b]}}
            if req:
                fb["required"] = ["p"]
            doc = {"definitions": dict(DEFS, T={"allOf": [fa, fb]})}
            tag = "p:%s%s" % (b, "!" if req else "")
            out.append({"id": "allOf[{p:%s},{%s}]" % (a, tag), "doc": doc, "target": "T", "combo": ["p:" + a, tag],
                        "multiset": ["lift", "req" if req else "opt"] + sorted([a, b])})
    return out


def cases(tier, seed):
    names = list(FRAGS)
    combos = list(itertools.permutations(names, 2))
    FRAGS.update(FMT_FRAGS)
    combos += [c for c in itertools.permutations(FMT_GROUP, 2) if c not in set(combos)]
    FRAGS.update(INTFMT_FRAGS)
    combos += [c for c in itertools.permutations(INTFMT_GROUP, 2) if c not in set(combos)]
    FRAGS.update(GROUP_FRAGS)
    combos += [c for c in itertools.permutations(GROUP_WITH, 2) if c not in set(combos)]
    combos += [c for c in itertools.permutations(ONEOF3_WITH, 2) if c not in set(combos) and any(n.startswith("oneof3") for n in c) and not all(n.startswith("oneof3") for n in c)]
    combos += list(itertools.permutations(TRIPLE if tier != "quick" else TRIPLE_QUICK, 3))
    out = lifted_cases(tier)
    for combo in combos:
        doc = {"definitions": dict(DEFS, T={"allOf": [FRAGS[n] for n in combo]})}
        out.append({"id": "allOf[%s]" % ",".join(combo), "doc": doc, "target": "T", "combo": list(combo), "multiset": sorted(combo)})
        if tier != "quick" and len(combo) == 2:
            d2 = {"definitions": dict(DEFS, T={"type": "object", "properties": {"m": {"allOf": [FRAGS[n] for n in combo]}}, "required": ["m"]})}
            out.append({"id": "member allOf[%s]" % ",".join(combo), "doc": d2, "target": "T", "combo": list(combo), "multiset": ["member"] + sorted(combo)})
    return out


def execute(cases_, tier, seed):
    res = Result()
    # a replay needs every permutation of the multiset
    if len(cases_) == 1:
        c = cases_[0]
        allc = cases("thorough", seed)
        cases_ = [x for x in allc if x["multiset"] == c["multiset"]]
    wcs = wire.run(cases_, {"struct_builder": False}, "c09_" + tier, depth=2, use_cache=len(cases_) > 6)
    res.rule = ("one case = one ordered allOf list; non-trivial = compiled case with >=1 oracle-valid and >=1 oracle-invalid candidate; groups = multisets, "
                "each compared across all its permutations")
    groups = {}
    n_cand = 0
    outcomes = {}
    for c, wc in zip(cases_, wcs):
        res.states += 1
        res.transitions += 2
        feats = {"combo": ",".join(c["combo"]), "multiset": ",".join(c["multiset"]),
                 "uses_oneof_open": any(n in ("oneof_pq", "ref_oneof") for n in c["combo"]), "uses_anyof_req": "anyof_req" in c["combo"]}
        st = "rejected" if wc.compiled is None else ("uncompilable" if not wc.compiled else "ok")
        outcomes[st] = outcomes.get(st, 0) + 1
        vec = None
        if st == "ok":
            vec = {}
            nv = ni = 0
            bad = []
            for rec in wc.instances:
                if "seqobj" in rec["flags"] or "nullopt" in rec["flags"]:
                    continue   # alphabet rules: never an array for an object, never null at an Option position
                n_cand += 1
                res.transitions += 1
                r = rec["res"] or {}
                k = canon(rec["v"])
                vec[k] = (bool(r.get("ok")), canon((r.get("w") or {}).get("v")) if r.get("ok") else None)
                if rec["valid"]:
                    nv += 1
                    if not r.get("ok"):
                        bad.append(rec["v"])
                else:
                    ni += 1
            if nv and ni:
                res.nontrivial += 1
            if bad:
                res.violations.append(Violation(wc.key, "rejects-valid-intersection", "%s: %d instance(s) valid under every subschema are rejected, e.g. %r" % (wc.id, len(bad), bad[0]),
                                                wc.placed, expected="accepted", observed={"rejected": bad[:8]}, features=feats, items=bad))
        groups.setdefault(tuple(c["multiset"]), []).append((c, wc, st, vec))
    # (ii) permutation invariance, (iii) unsatisfiable => uninhabited (a rejected/never permutation next to an inhabited one is caught here)
    for ms, members in groups.items():
        if len(members) < 2:
            continue
        ref_c, ref_wc, ref_st, ref_vec = members[0]
        for c, wc, st, vec in members[1:]:
            res.transitions += 1
            feats = {"combo": ",".join(c["combo"]), "multiset": ",".join(c["multiset"]),
                 "uses_oneof_open": any(n in ("oneof_pq", "ref_oneof") for n in c["combo"]), "uses_anyof_req": "anyof_req" in c["combo"]}
            if st != ref_st:
                res.violations.append(Violation(wc.key, "order-dependent-outcome", "%s is %s but %s is %s" % (wc.id, st, ref_wc.id, ref_st), wc.placed,
                                                expected=ref_st, observed=st, features=feats, items=[c["combo"], ref_c["combo"]]))
                continue
            if vec is None:
                continue
            common = set(vec) & set(ref_vec)
            diff = [k for k in sorted(common) if vec[k] != ref_vec[k]]
            if diff:
                res.violations.append(Violation(wc.key, "order-dependent-acceptance", "%s vs %s differ on %d candidate(s), e.g. %s: %s vs %s" % (
                    wc.id, ref_wc.id, len(diff), diff[0], vec[diff[0]], ref_vec[diff[0]]), wc.placed, expected="equal acceptance and round-trip vectors",
                    observed={"differ": [(k, vec[k], ref_vec[k]) for k in diff[:6]]}, features=feats, items=[c["combo"], ref_c["combo"]]))
    res.evaluations = res.transitions
    res.extra.update({"candidates": n_cand, "multisets": len(groups), "outcomes": outcomes})
    res.samples = [{"id": c["id"], "allOf": c["doc"]["definitions"]["T"]} for c in cases_[:: max(1, len(cases_) // 4)]][:4]
    res.bound = "tier=%s: all ordered pairs of %d fragments%s" % (tier, len(FRAGS),
                                                                  "" if tier == "quick" else " (as definition and as member) + all ordered triples of %d" % len(TRIPLE))
    res.assumptions = ["fragments hitting merge's documented unimplemented!() (two different numeric/string validations) are not in the menu"]
    if not res.violations and (len(cases_) > 20 and (n_cand < 500 or outcomes.get("ok", 0) < 10)):   # a subject that breaks everything is reported through its violations, not as vacuity
        raise MachineryError("vacuity guard: candidates=%d ok=%d" % (n_cand, outcomes.get("ok", 0)))
    return res
