"""C02 — every schema-valid JSON instance deserialises into the generated type.
Space: faithful-fragment families (depth-2, depth-3, pairs) x the complete instance universe U(S,d).
Oracle: python jsonschema Draft 7 (integer formats as ranges): valid(S,v) => from_str::<T_S>(v) is Ok."""
from .. import wire, wirefam
from ..common import MachineryError
from ..runner import Result, Violation

SETTINGS = {"struct_builder": False}
NAME = "wire_ff"


def cases(tier, seed):
    return wirefam.faithful_cases(tier)


def _run(cases_, tier):
    return wire.run(cases_, SETTINGS, NAME + "_" + tier if len(cases_) > 1 else "replay_c02", depth=wirefam.DEPTH.get(tier, 2),
                    use_cache=len(cases_) > 1)


def execute(cases_, tier, seed):
    res = Result()
    wcs = _run(cases_, tier)
    res.rule = ("one case = one faithful-fragment schema placed in a context, compiled and probed with its whole instance universe; "
                "non-trivial = ingested+compiled case with >=1 oracle-valid and >=1 oracle-invalid instance; distinct by (schema document)")
    n_valid = n_invalid = 0
    skipped = {"rejected": 0, "compile_failed": 0}
    trunc = 0
    for wc in wcs:
        res.states += 1
        res.transitions += 2
        if wc.compiled is None:
            skipped["rejected"] += 1
            continue
        if not wc.compiled:
            skipped["compile_failed"] += 1
            continue
        trunc += 1 if wc.truncated else 0
        bad = []
        nv = ni = 0
        for rec in wc.instances:
            res.transitions += 1
            if rec["valid"]:
                nv += 1
                r = rec["res"] or {}
                if not r.get("ok"):
                    bad.append({"instance": rec["v"], "observed": {k: r.get(k) for k in ("ok", "err", "panic", "abort") if k in r}})
            else:
                ni += 1
        n_valid += nv
        n_invalid += ni
        if nv and ni:
            res.nontrivial += 1
        if bad:
            res.violations.append(Violation(wc.key, "rejects-valid",
                                            "%s: %d schema-valid instance(s) rejected, e.g. %r" % (wc.id, len(bad), bad[0]["instance"]),
                                            wc.placed, expected="every oracle-valid instance deserialises",
                                            observed={"rejected": bad[:8], "ident": wc.ident},
                                            features={"shape": wc.placed.get("shape"), "ctx": wc.placed.get("ctx"), "id": wc.id,
                                                      "shape_kind": (wc.placed.get("shape") or "").split("(")[0], **(wc.placed.get("tg") or {})},
                                            items=[b["instance"] for b in bad]))
    res.evaluations = res.transitions
    res.extra.update({"valid_instances": n_valid, "invalid_instances": n_invalid, "skipped": skipped,
                      "universe_truncated_cases": trunc})
    res.samples = [{"id": wc.id, "doc": wc.placed["doc"], "n_instances": len(wc.instances)} for wc in wcs[:: max(1, len(wcs) // 4)]][:4]
    res.bound = "tier=%s: faithful-fragment depth-2 space%s; instance universe depth %d, <=600 instances per schema" % (
        tier, "" if tier == "quick" else " + depth-3 space + pairs", wirefam.DEPTH.get(tier, 2))
    res.assumptions = ["validity = python jsonschema Draft7 with integer formats read as ranges; unformatted integers clipped to i64",
                       "cases typify rejects or whose output does not compile are C01's business and are skipped here (counted)"]
    if not res.violations and (len(cases_) > 20 and (n_valid < 100 or n_invalid < 100)):   # a subject that breaks everything is reported through its violations, not as vacuity
        raise MachineryError("vacuity guard: valid=%d invalid=%d" % (n_valid, n_invalid))
    if trunc:
        res.exhaustive = False
    return res
