"""C01 — every accepted schema yields Rust that compiles; supported schemas are never rejected.
Space: (a) depth-2 space and pairs under the settings product builder x map type x derives; (b) name-collision family
(prelude names, names typify invents); (c) C06's default family; (d) n=1 recursion graphs; (g) the repository's own fixture schemas (typify/tests/schemas) under the
settings product and through the definitions-map route; (e) every case's definitions
ingested through three batchings (history family); (f) root-level shapes (context 'root').
Obs: per-op status, to_stream() returns, syn parses a File, `cargo check` of the module with error attribution.
Oracle: ingest Ok => no panic, parses, zero rustc errors; and (every member is inside the supported fragment) ingest Ok."""
import copy
import json

from .. import wire
import os

from ..common import REPO, MachineryError
from ..menus import shapes
from ..runner import Result, Violation

S_DEFAULT = {"struct_builder": False}
S_BUILDER = {"struct_builder": True}
S_PRODUCT = [
    {"struct_builder": b, "map_type": m, "derives": d}
    for b in (False, True) for m in ("::std::collections::HashMap", "::std::collections::BTreeMap", "::verif_support::ext::VMap")
    for d in ([], ["PartialEq"])
]
INVENTED = ["TInner", "TItem", "TKey", "TValue", "TSubtype0", "TVariant0", "TM", "TExtra", "Extra", "Builder", "Defaults", "Error", "ConversionError",
            "String", "Vec", "Option", "Result", "Default", "Ok", "Err", "Some", "None", "Box", "Self_", "Value", "Map", "Serialize", "Deserialize", "From", "Into"]
INVENTED_MEMBERS = ["extra", "subtype_0", "builder", "defaults", "error", "value", "self", "type", "Self", "crate", "super", "ref", "r#type", "__", "0"]


def _obj(props, req=()):
    d = {"type": "object", "properties": props}
    if req:
        d["required"] = list(req)
    return d


def collision_family():
    out = []
    base_t = {"oneOf": [{"type": "string", "maxLength": 3}, {"type": "null"}]}
    hosts = {
        "nullable": base_t,
        "vec_of_obj": {"type": "array", "items": _obj({"a": {"type": "integer"}})},
        "map_pat": {"type": "object", "patternProperties": {"^[a-z]+$": {"type": "integer"}}, "additionalProperties": False},
        "untagged": {"oneOf": [_obj({"p": {"type": "string"}}, ["p"]), {"type": "array", "items": {"type": "integer"}}]},
        "struct_m": _obj({"m": _obj({"x": {"type": "integer"}}), "extra": {"type": "string"}}, ["m"]),
        "struct_flat": dict(_obj({"m": {"type": "integer"}}), additionalProperties={"type": "string"}),
    }
    for hn, host in hosts.items():
        for name in INVENTED:
            doc = {"definitions": {"T": copy.deepcopy(host), name: _obj({"zz9": {"type": "boolean"}})}}
            out.append({"id": "collide[%s,%s]" % (hn, name), "doc": doc, "target": "T", "shape": "collide:" + hn, "ctx": "defs", "family": "collision"})
    for m in INVENTED_MEMBERS:
        for builder in (False, True):
            doc = {"definitions": {"T": dict(_obj({m: {"type": "integer"}, "other": {"type": "string", "default": "d"}}, [m]))}}
            out.append({"id": "member[%s]%s" % (m, "#b" if builder else ""), "doc": doc, "target": "T", "shape": "member-name", "ctx": "def", "family": "collision",
                        "settings": {"struct_builder": builder}})
            doc2 = {"definitions": {"T": dict(_obj({m: {"type": "integer"}}, [m]), additionalProperties={"type": "string"})}}
            out.append({"id": "member_flat[%s]%s" % (m, "#b" if builder else ""), "doc": doc2, "target": "T", "shape": "member-name-flat", "ctx": "def", "family": "collision",
                        "settings": {"struct_builder": builder}})
    # names that meet WITHOUT two definition keys being alike: the root's title and a key; the invented name of an in-line member type
    # (Foo.bar -> FooBar, Foo.bar[] -> FooBarItem, an untagged variant's name) and a key
    zz = _obj({"zz9": {"type": "boolean"}})
    inl = _obj({"x": {"type": "integer"}})
    meets = {
        "root_title~key": {"title": "FooBar", "type": "object", "properties": {"a": {"type": "integer"}}, "definitions": {"foo_bar": zz}},
        "root_title~key_late": {"title": "FooBar", "type": "object", "properties": {"a": {"$ref": "#/definitions/foo_bar"}}, "definitions": {"foo_bar": zz, "Aaa": inl}},
        "member_inline~key": {"definitions": {"Foo": _obj({"bar": inl}), "foo_bar": zz}},
        "member_inline~key_before": {"definitions": {"Foo": _obj({"bar": inl}), "FOO-BAR": zz, "Aaa": _obj({"f": {"$ref": "#/definitions/Foo"}})}},
        "items_inline~key": {"definitions": {"Foo": _obj({"bar": {"type": "array", "items": inl}}), "foo_bar_item": zz}},
        "variant_inline~key": {"definitions": {"Foo": {"oneOf": [inl, {"type": "array", "items": {"type": "integer"}}]}, "foo_variant0": zz}},
        "member_enum_inline~key": {"definitions": {"Foo": _obj({"bar": {"type": "string", "enum": ["a", "b"]}}), "foo_bar": zz}},
    }
    # ... and a definition whose in-line member / item carries the definition's OWN name as its title
    meets["own_title_member~key"] = {"definitions": {"Pet": _obj({"tag": dict(_obj({"label": {"type": "string"}}), title="Pet"), "n": {"type": "integer"}})}}
    meets["own_title_items~key"] = {"definitions": {"Pets": {"type": "array", "items": dict(_obj({"label": {"type": "string"}}), title="Pets")}}}
    meets["own_title_variant~key"] = {"definitions": {"Shape": {"oneOf": [dict(_obj({"r": {"type": "integer"}}, ["r"]), title="Shape"), {"type": "array", "items": {"type": "integer"}}]}}}
    for mn, doc in meets.items():
        out.append({"id": "meet[%s]" % mn, "doc": doc, "target": None, "shape": "meet:" + mn.split("~")[0], "ctx": "root" if "title" in doc else "defs", "family": "collision",
                    "sup": False})   # an error naming the clash is a correct answer; two items of one name are not
    # bespoke default functions are named <type>_<member>: Foo.bar_baz and FooBar.baz meet
    en = {"type": "string", "enum": ["a", "b"]}
    for (t1, m1, t2, m2) in (("Foo", "bar_baz", "FooBar", "baz"), ("A", "b_c", "AB", "c")):
        if t1 == t2:
            defs = {"E": en, t1: _obj({m1: {"default": "a", "allOf": [{"$ref": "#/definitions/E"}]}, m2: {"default": "b", "allOf": [{"$ref": "#/definitions/E"}]}})}
        else:
            defs = {"E": en, t1: _obj({m1: {"default": "a", "allOf": [{"$ref": "#/definitions/E"}]}}), t2: _obj({m2: {"default": "b", "allOf": [{"$ref": "#/definitions/E"}]}})}
        out.append({"id": "default_fn_names[%s.%s,%s.%s]" % (t1, m1, t2, m2), "doc": {"definitions": defs}, "target": None, "shape": "default-fn-names", "ctx": "defs",
                    "family": "collision"})
    # whole-type default that omits a member which has its own default of a type without Default
    inline = {"type": "object", "properties": {"k": {"default": "b", "allOf": [{"$ref": "#/definitions/E"}]}, "n": {"type": "integer"}}, "default": {"n": 1}}
    out.append({"id": "type_default_omits_defaulted_member", "doc": {"definitions": {"E": en, "T": _obj({"inner": inline})}}, "target": None,
                "shape": "type-default-omits-member", "ctx": "member", "family": "collision"})
    return out


def history_variants(p):
    """the same definitions ingested through other batchings (only for definition-map documents)"""
    doc = p["doc"]
    defs = doc.get("definitions")
    if not defs or set(doc) != {"definitions"}:
        return []
    out = []
    q = dict(p)
    q["id"] = p["id"] + "~refs"
    q["ops"] = [{"refs": defs}]
    out.append(q)
    names = sorted(defs)
    if len(names) == 1:
        q = dict(p)
        q["id"] = p["id"] + "~refs+type"
        q["ops"] = [{"refs": defs}, {"type": {"$ref": "#/definitions/" + names[0]}, "hint": None}]
        out.append(q)
        if "$ref" in json.dumps(defs[names[0]]):
            return out   # add_type_with_name alone cannot resolve a reference to the definition itself (documented precondition)
        q = dict(p)
        q["id"] = p["id"] + "~type_with_name"
        q["ops"] = [{"type": defs[names[0]], "hint": names[0]}]
        q["target"] = None
        out.append(q)
    return out


def cases(tier, seed):
    out = []
    base = shapes.space_depth2(tier) + shapes.twins(tier)
    if tier == "quick":
        for p in base:
            for i, st in enumerate((S_DEFAULT, S_BUILDER)):
                q = dict(p, id="%s#s%d" % (p["id"], i), settings=st, family="depth2")
                out.append(q)
        coll = collision_family()
        out += [dict(c, settings=c.get("settings", S_BUILDER)) for c in coll[::3]]
        for p in base[::9]:
            for h in history_variants(p):
                out.append(dict(h, settings=S_BUILDER, family="history"))
    else:
        base = base + shapes.pairs(tier) + shapes.space_depth3(tier)
        for p in base:
            sets = S_PRODUCT if (p.get("ctx") in ("def", "map_value", "pair_struct") and "member2[" not in p["id"]) else (S_DEFAULT, S_BUILDER)
            for i, st in enumerate(sets):
                out.append(dict(p, id="%s#s%d" % (p["id"], i), settings=st, family="depth2"))
        out += [dict(c, settings=c.get("settings", S_BUILDER)) for c in collision_family()]
        for p in base[::3]:
            for h in history_variants(p):
                out.append(dict(h, settings=S_BUILDER, family="history"))
    # the repository's own fixture schemas under every settings assignment and through the definitions-map route
    fx_dir = os.path.join(REPO, "typify", "tests", "schemas")
    for fn in sorted(os.listdir(fx_dir)) if os.path.isdir(fx_dir) else []:
        if not fn.endswith(".json"):
            continue
        try:
            doc = json.load(open(os.path.join(fx_dir, fn)))
        except Exception:
            continue
        if fn == "type-with-modified-generation.json":
            continue   # only convertible under the repository harness's own replace/convert settings (it contains the unsupported mixed enum)
        sets = S_PRODUCT if tier != "quick" else (S_DEFAULT, S_BUILDER)
        for i, st in enumerate(sets):
            out.append({"id": "fixture:%s#s%d" % (fn, i), "doc": doc, "target": None, "settings": st, "family": "fixture", "shape": "fixture:" + fn, "ctx": "file"})
        defs = doc.get("definitions") or doc.get("$defs")
        if isinstance(defs, dict) and defs:
            out.append({"id": "fixture:%s~refs" % fn, "doc": doc, "target": None, "settings": S_BUILDER, "family": "fixture", "shape": "fixture:" + fn, "ctx": "file",
                        "ops": [{"refs": defs}]})
    # C06's default family and n=1 recursion graphs
    from . import C06, C07
    for c in C06.cases(tier, seed):
        out.append({"id": "default:" + c["id"], "doc": c["doc"], "target": None, "settings": c["settings"], "family": "default",
                    "shape": "default:" + c["kind"], "ctx": c["pos"], "default_valid": c["valid"] and c.get("src") not in ("universe+zz", "float-spelled")})   # a default with undeclared members may be declined
    for c in C07.cases("quick", seed):
        if c["n"] == 1:
            out.append({"id": "graph:" + c["key"], "doc": c["doc"], "target": "D0", "settings": S_BUILDER, "family": "cycle", "shape": "graph", "ctx": "n1",
                        "alias_only_cycle": C07._alias_only_cycle([C07._deser(nd) for nd in c["nodes"]]),
                        "obj_enum": any(nd[0] == "ntobj" for nd in c["nodes"]),
                        "anyof_flatten_cycle": C07._anyof_flatten_cycle([C07._deser(nd) for nd in c["nodes"]])})
    seen, res = set(), []
    for p in out:
        if p["id"] not in seen:
            seen.add(p["id"])
            res.append(p)
    return res


def execute(cases_, tier, seed):
    res = Result()
    wcs = wire.run(cases_, S_DEFAULT, "c01_" + tier if len(cases_) > 1 else "replay_c01", mode="check", need_target=False, use_cache=len(cases_) > 1)
    res.rule = ("one case = (schema document, settings, ingestion batching); non-trivial = case whose ingestion succeeded and whose module was type-checked "
                "by rustc; distinct by (document, settings, ops)")
    hist = {}
    for wc in wcs:
        res.states += 1
        res.transitions += len(wc.placed.get("ops") or [1]) + 1
        p = wc.placed
        feats = {"family": p.get("family"), "shape": p.get("shape"), "ctx": p.get("ctx"), "shape_kind": (p.get("shape") or "").split("(")[0],
                 "builder": bool((wc.settings or {}).get("struct_builder")), "id": wc.id.split("#")[0].split("~")[0],
                 "map_type": (wc.settings or {}).get("map_type")}
        if "alias_only_cycle" in p:
            feats["alias_only_cycle"] = p["alias_only_cycle"]
        if p.get("obj_enum"):
            feats["obj_enum"] = True
        if p.get("anyof_flatten_cycle"):
            feats["anyof_flatten_cycle"] = True
        ops = (wc.answer or {}).get("ops") or []
        st = wc.ingest.get("status") if wc.ingest else "abort"
        bad_op = next((o for o in ops if o.get("status") in ("err", "panic")), None)
        if (wc.answer or {}).get("abort"):
            st = "abort"
        if bad_op or st in ("abort",):
            status = bad_op["status"] if bad_op else "abort"
            hist["rejected:" + status] = hist.get("rejected:" + status, 0) + 1
            if p.get("family") == "default" and not p.get("default_valid") and status == "err":
                continue   # an invalid default must be an error (C06)
            if p.get("sup") is False and status in ("err", "panic"):
                hist["rejected-outside-fragment"] = hist.get("rejected-outside-fragment", 0) + 1
                continue   # outside the supported fragment typify may decline a schema (Err or its explicit unimplemented!/todo! arms)
            msg = (bad_op or {}).get("msg", "")
            res.violations.append(Violation(wc.key, "rejected:" + status, "%s: supported schema %s at add: %s" % (wc.id, "panics" if status == "panic" else status, str(msg)[:160]),
                                            p, expected="ingest Ok", observed=bad_op or wc.answer, features=feats, items=[str(msg)[:80]]))
            continue
        if not wc.render or wc.render.get("status") != "ok":
            hist["render-panic"] = hist.get("render-panic", 0) + 1
            res.violations.append(Violation(wc.key, "render-panic", "%s: to_stream() panics: %s" % (wc.id, str((wc.render or {}).get("msg"))[:160]), p,
                                            expected="renders", observed=wc.render, features=feats, items=[str((wc.render or {}).get("msg"))[:80]]))
            continue
        if not wc.syn_ok:
            hist["unparsable"] = hist.get("unparsable", 0) + 1
            res.violations.append(Violation(wc.key, "unparsable", "%s: output is not a Rust file: %s" % (wc.id, (wc.answer or {}).get("syn_err")), p,
                                            expected="parses", observed=(wc.answer or {}).get("syn_err"), features=feats))
            continue
        if wc.compiled is None:
            raise MachineryError("case %s neither failed nor was compiled" % wc.id)
        res.nontrivial += 1
        if not wc.compiled:
            codes = sorted({e["code"] for e in wc.errors})
            hist["compile-failed"] = hist.get("compile-failed", 0) + 1
            res.violations.append(Violation(wc.key, "compile:" + ",".join(codes), "%s: generated code does not type-check: %s" % (wc.id, wc.errors[0]["msg"][:160]), p,
                                            expected="zero rustc errors", observed=wc.errors[:6], features=feats, items=codes))
        else:
            hist["ok"] = hist.get("ok", 0) + 1
    res.evaluations = res.transitions
    res.extra["outcome_histogram"] = hist
    res.samples = [{"id": wc.id, "settings": wc.settings, "doc": wc.placed["doc"]} for wc in wcs[:: max(1, len(wcs) // 4)]][:4]
    res.bound = "tier=%s: depth-2 space x %s; collision, default, n=1 cycle and history families" % (
        tier, "{builder off,on}" if tier == "quick" else "settings product (12) on def/member/map/pair contexts, {builder off,on} elsewhere; + pairs + depth-3")
    res.assumptions = ["rustc 1.80.1 `cargo check` (type-check) against serde, serde_json, chrono, uuid, regress at the repo's locked versions; warnings ignored"]
    if not res.violations and (len(cases_) > 50 and hist.get("ok", 0) < 100):   # a subject that breaks everything is reported through its violations, not as vacuity
        raise MachineryError("vacuity guard: only %d modules type-checked" % hist.get("ok", 0))
    return res
