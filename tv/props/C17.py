"""C17 — the introspection API describes the code that is generated.
Space: depth-2 space (+ pairs, C06 default kinds and string-ish shapes in thorough) x settings {type_mod none/'types',
builder off/on, map type}. Obs: the public Type API dump of every type of the space vs the syn scan of the same output;
compiled assertions emitted from the API's own answers, placed OUTSIDE the module named by type_mod:
`let _: Option<IDENT> = None;`, `fn f<T: Trait>()` instantiated at every (type, trait) with has_impl true,
`<BUILDER>::default()`. Oracle: struct properties == fields (name, required <=> no serde default, type), variants ==
variants, newtype inner == field type, builder() Some <=> item in mod builder, has_impl true => bound compiles, every
external crate path in the tokens => its uses_* flag."""
import re

from .. import wire
from ..common import MachineryError
from ..menus import shapes
from ..runner import Result, Violation

TRAITS = {"FromStr": "::std::str::FromStr", "Display": "::std::fmt::Display", "Default": "::std::default::Default"}
SETTINGS = [
    {"struct_builder": True},
    {"struct_builder": True, "type_mod": "types"},
    {"struct_builder": False, "type_mod": "types", "map_type": "::std::collections::BTreeMap"},
    {"struct_builder": False},
]
CRATES = {"chrono": r"::\s*chrono\s*::", "uuid": r"::\s*uuid\s*::", "serde_json": r"::\s*serde_json\s*::", "regress": r"\bregress\s*::"}


def norm(s):
    return (s or "").replace(" ", "").replace(",>", ">").replace(",)", ")")


def cases(tier, seed):
    base = shapes.space_depth2(tier, contexts=["def", "member_opt", "member_req", "ext_payload", "vec_item", "root", "ref_alias"] if tier == "quick" else None)
    base += shapes.twins(tier)
    base += shapes.order_pairs(tier)
    if tier != "quick":
        base += shapes.pairs(tier)
    sets = SETTINGS[:2] if tier == "quick" else SETTINGS
    out = []
    for p in base:
        for i, st in enumerate(sets if p.get("ctx") in ("def", "pair_struct", "pair_ext") or tier == "quick" else sets[:2]):
            out.append(dict(p, id="%s#s%d" % (p["id"], i), settings=st))
    out += impl_family()
    return out


def impl_family():
    """replacement / conversion targets declared with every subset of {FromStr, Display, Default}: what has_impl reports for types
    built on them (untagged enums of string-ish variants, alias newtypes, tuples) must still be implemented"""
    import itertools
    out = []
    for r in range(4):
        for sub in itertools.combinations(["FromStr", "Display", "Default"], r):
            for how in ("replace", "convert"):
                loc = {"type": "string", "format": "x-location"}
                defs = {"Location": loc,
                        "Target": {"oneOf": [{"$ref": "#/definitions/Location"}, {"type": "integer"}]},
                        "Target2": {"oneOf": [{"$ref": "#/definitions/Location"}, {"type": "string", "format": "uuid"}]},
                        "Alias": {"$ref": "#/definitions/Location"},
                        "Pair": {"type": "array", "items": [{"$ref": "#/definitions/Location"}, {"type": "integer"}], "minItems": 2, "maxItems": 2},
                        "Holder": {"type": "object", "properties": {"l": {"$ref": "#/definitions/Location"}, "t": {"$ref": "#/definitions/Target"}}}}
                st = {"struct_builder": True}
                if how == "replace":
                    st["replace"] = {"Location": {"type": "::verif_support::ext::Conv", "impls": list(sub)}}
                else:
                    st["convert"] = [{"schema": loc, "type": "::verif_support::ext::Conv", "impls": list(sub)}]
                out.append({"id": "impls[%s;%s]" % (how, "+".join(sub) or "none"), "doc": {"definitions": defs}, "target": None, "settings": st,
                            "shape": "impls:" + how, "ctx": "defs"})
    return out


def decorate(wc, a):
    api = (a.get("api") or {}).get("types") or []
    tm = (wc.settings or {}).get("type_mod")
    asserts = []
    meta = []
    for n, t in enumerate(api):
        ident = t.get("ident")
        if not isinstance(ident, str):
            continue
        asserts.append("const _: fn() = || { let _: ::std::option::Option<%s> = ::std::option::Option::None; }; // resolve %d" % (ident, n))
        meta.append(("resolve", t["id"], None))
        for tr, path in TRAITS.items():
            if (t.get("has_impl") or {}).get(tr) is True:
                asserts.append("const _: fn() = || { fn verif_has_impl<T: %s>() {} verif_has_impl::<%s>(); }; // has_impl %d %s" % (path, ident, n, tr))
                meta.append(("has_impl", t["id"], tr))
        if isinstance(t.get("builder"), str):
            asserts.append("const _: fn() = || { let _ = <%s as ::std::default::Default>::default(); }; // builder %d" % (t["builder"], n))
            meta.append(("builder", t["id"], None))
    wc.extra_obs["assert_meta"] = meta
    return {"asserts": asserts, "wrap_mod": tm}


def execute(cases_, tier, seed):
    res = Result()
    wcs = wire.run(cases_, {}, "c17_" + tier if len(cases_) > 1 else "replay_c17", mode="check", keep_scan=True, keep_api=True, keep_pretty=True,
                   decorate=decorate, need_target=False, use_cache=len(cases_) > 1)
    res.rule = ("one case = (schema document, settings); every type of the space is compared API-vs-code and gets compiled assertions; non-trivial = case "
                "with >=1 struct or enum and >=1 has_impl==true assertion; distinct by (document, settings)")
    n_types = n_asserts = 0
    for wc in wcs:
        res.states += 1
        res.transitions += 1
        if wc.compiled is None or not wc.api:
            continue
        feats = {"shape": wc.placed.get("shape"), "ctx": wc.placed.get("ctx"), "id": wc.id.split("#")[0], "shape_kind": (wc.placed.get("shape") or "").split("(")[0],
                 "type_mod": (wc.settings or {}).get("type_mod"), "builder": bool((wc.settings or {}).get("struct_builder"))}
        types = {t["id"]: t for t in wc.api["types"]}
        mods = (wc.scan or {}).get("mods", {})
        root = mods.get("", [])
        items = {it["name"]: it for it in root if it.get("kind") in ("struct", "enum")}
        builder_items = {it["name"] for it in mods.get("builder", []) if it.get("kind") == "struct"}
        probs = []
        nontriv = False
        for t in wc.api["types"]:
            n_types += 1
            res.transitions += 1
            k = t.get("kind")
            if k == "panic":
                probs.append("details() panicked for %s" % t.get("name"))
                continue
            for key in ("name", "ident"):
                if not isinstance(t.get(key), str):
                    probs.append("%s() panicked: %s" % (key, t.get(key)))
            if k in ("struct", "enum", "newtype"):
                nontriv = True
                it = items.get(t["name"])
                if it is None:
                    probs.append("%s %s reported by the API is not an item of the output" % (k, t["name"]))
                    continue
                if k == "struct":
                    if it["kind"] != "struct" or it["body"]["style"] != "named":
                        probs.append("API says struct %s, code has %s/%s" % (t["name"], it["kind"], it.get("body", {}).get("style")))
                        continue
                    fields = it["body"]["fields"]
                    if [p["name"] for p in t["props"]] != [f["name"] for f in fields]:
                        probs.append("%s: properties %s != fields %s" % (t["name"], [p["name"] for p in t["props"]], [f["name"] for f in fields]))
                        continue
                    for p, f in zip(t["props"], fields):
                        ft = types.get(p["type_id"])
                        if ft is None or norm(ft["name"]) != norm(f["ty"]):
                            probs.append("%s.%s: API type %s != field type %s" % (t["name"], p["name"], ft and ft["name"], f["ty"]))
                        has_default = any(s["key"] == "default" for s in f["attrs"]["serde"])
                        if p["required"] == has_default:
                            probs.append("%s.%s: API required=%s but field %s a serde default" % (t["name"], p["name"], p["required"], "has" if has_default else "lacks"))
                    bi = t["name"] in builder_items
                    if (t.get("builder") is not None) != bi:
                        probs.append("%s: builder()=%s but builder item %s" % (t["name"], t.get("builder"), "exists" if bi else "is absent"))
                elif k == "enum":
                    if it["kind"] != "enum":
                        probs.append("API says enum %s, code has %s" % (t["name"], it["kind"]))
                        continue
                    vs = it["variants"]
                    if [v["name"] for v in t["variants"]] != [v["name"] for v in vs]:
                        probs.append("%s: variants %s != %s" % (t["name"], [v["name"] for v in t["variants"]], [v["name"] for v in vs]))
                        continue
                    for av, cv in zip(t["variants"], vs):
                        style = cv["body"]["style"]
                        want = {"simple": "unit", "tuple": "tuple", "struct": "named"}[av["kind"]]
                        if style != want:
                            probs.append("%s::%s: API %s, code %s" % (t["name"], av["name"], av["kind"], style))
                            continue
                        if av["kind"] == "tuple":
                            at = [norm(types[i]["name"]) if i in types else None for i in av["data"]]
                            ct = [norm(f["ty"]) for f in cv["body"]["fields"]]
                            if at != ct and not (len(ct) == 1 and len(at) >= 1 and norm("(" + ",".join(at) + ("," if len(at) == 1 else "") + ")") == ct[0]):
                                probs.append("%s::%s: API payload %s != %s" % (t["name"], av["name"], at, ct))
                        elif av["kind"] == "struct":
                            at = [(n, norm(types[i]["name"]) if i in types else None) for n, i in av["data"]]
                            ct = [(f["name"], norm(f["ty"])) for f in cv["body"]["fields"]]
                            if at != ct:
                                probs.append("%s::%s: API members %s != %s" % (t["name"], av["name"], at, ct))
                else:
                    if it["kind"] != "struct" or it["body"]["style"] != "tuple" or len(it["body"]["fields"]) != 1:
                        probs.append("API says newtype %s, code differs" % t["name"])
                        continue
                    inner = types.get(t["inner"])
                    if inner is None or norm(inner["name"]) != norm(it["body"]["fields"][0]["ty"]):
                        probs.append("%s: inner %s != field %s" % (t["name"], inner and inner["name"], it["body"]["fields"][0]["ty"]))
            elif t.get("builder") is not None:
                probs.append("%s %s has builder() = %s" % (k, t.get("name"), t.get("builder")))
        # items of the output the API does not report
        api_named = {t["name"] for t in wc.api["types"] if t.get("kind") in ("struct", "enum", "newtype")}
        for name in items:
            if name not in api_named:
                probs.append("item %s is emitted but not yielded by iter_types()" % name)
        if not wc.api.get("complete") or len(wc.api.get("iter_names", [])) != len(wc.api["types"]):
            probs.append("iter_types() yields %d types, ids resolve %d" % (len(wc.api.get("iter_names", [])), len(wc.api["types"])))
        # uses_* flags
        code = "\n".join(l for l in (wc.pretty or "").split("\n") if not l.lstrip().startswith("///"))
        for crate, rx in CRATES.items():
            if re.search(rx, code) and not (wc.flags or {}).get(crate):
                probs.append("output uses %s paths but uses_%s() is false" % (crate, crate))
        if probs:
            res.violations.append(Violation(wc.key, "api-mismatch", "%s: %s" % (wc.id, "; ".join(probs[:3])), wc.placed, expected="API facts coincide with the parsed output",
                                            observed=probs[:12], features=feats, items=sorted({re.sub(r"[A-Z]\w*", "_", p)[:60] for p in probs})))
        # compiled assertions
        meta = wc.extra_obs.get("assert_meta", [])
        n_asserts += len(meta)
        if any(m[0] == "has_impl" for m in meta) and nontriv:
            res.nontrivial += 1
        if wc.compiled is False:
            a_errs = [e for e in wc.errors if e["where"] == "assert"]
            if a_errs:
                msgs = sorted({e["msg"][:140] for e in a_errs})
                which = classify_asserts(wc, a_errs)
                res.violations.append(Violation(wc.key, "assertion:" + "+".join(sorted({w[0] for w in which})), "%s: %s" % (wc.id, "; ".join("%s %s %s" % w for w in which[:3])),
                                                wc.placed, expected="assertions derived from the API compile", observed={"failed": which[:10], "rustc": msgs[:5]}, features=feats,
                                                items=sorted({"%s:%s:%s" % (w[0], w[2], w[1].split(" ")[0]) for w in which})))
    res.evaluations = res.transitions
    res.extra.update({"types_compared": n_types, "compiled_assertions": n_asserts})
    res.samples = [{"id": wc.id, "settings": wc.settings, "doc": wc.placed["doc"]} for wc in wcs[:: max(1, len(wcs) // 4)]][:4]
    res.bound = "tier=%s: depth-2 space%s x %d settings" % (tier, "" if tier == "quick" else " + pairs", 2 if tier == "quick" else 4)
    res.assumptions = ["has_impl(Default) is not queried on types that reach themselves through newtype/Box/tuple/array (documented unbounded recursion)",
                       "module compile errors outside the assertion region are C01's business"]
    if not res.violations and (len(cases_) > 20 and (n_types < 500 or n_asserts < 500)):   # a subject that breaks everything is reported through its violations, not as vacuity
        raise MachineryError("vacuity guard: types=%d asserts=%d" % (n_types, n_asserts))
    return res


def classify_asserts(wc, errs):
    """map failing assertion lines back to (kind, type name, trait) using the order in which they were emitted"""
    meta = wc.extra_obs.get("assert_meta", [])
    names = {}
    if wc.api:
        root = (wc.scan or {}).get("mods", {}).get("", [])
        items = {it["name"]: it for it in root if it.get("kind") in ("struct", "enum")}
        for t in wc.api["types"]:
            cls = t.get("kind")
            it = items.get(t.get("name"))
            if cls == "newtype" and it is not None and it["kind"] == "struct":
                derives = [d.replace(" ", "") for d in it["attrs"]["derives"]]
                inner = it["body"]["fields"][0]["ty"].replace(" ", "") if it["body"]["fields"] else ""
                if "::serde::Deserialize" not in derives and inner in ("::std::string::String", "String"):
                    cls = "constrained-string-newtype"
            elif cls == "builtin":
                cls = "builtin " + str(t.get("name")).replace(" ", "")
            names[t["id"]] = "%s %s" % (cls, t.get("name")) if cls in ("struct", "enum", "newtype", "constrained-string-newtype") else cls
    base = wc.extra_obs.get("assert_line")
    out = []
    lines = sorted({e["line"] for e in errs if e.get("line")})
    # the batch writer puts one assertion per line starting at Case.assert_line; recover the start from the smallest plausible offset
    start = wc.extra_obs.get("assert_start")
    for ln in lines:
        if start is None:
            out.append(("assert", "?", "line %d" % ln))
            continue
        i = ln - start
        if 0 <= i < len(meta):
            kind, tid, tr = meta[i]
            out.append((kind, str(names.get(tid)), tr or ""))
        else:
            out.append(("assert", "?", "line %d" % ln))
    return out
