"""C04 — Rust -> schemars schema -> typify type is wire compatible with the original.
Instead of random universes: an exhaustive grammar of serde-derivable definitions. Field types: scalars {u8,i32,u64,bool,
String,f64}, Option/Vec/tuple/[_;2]/Box/BTreeMap<String,_> of a scalar, reference to another type of the universe.
Containers: named struct (1-2 fields), tuple struct (1,2), unit struct, enum under {external, internal, adjacent, untagged}
with variants from {unit, newtype, tuple, struct}. Attribute features (default absent): rename_all x3, container /
variant / field rename, field default, deny_unknown_fields, skip_serializing_if; all assignments with <=k deviations.
Sample values: the full product of a 2-element value set per field type (every Option None and Some, every Vec empty and
not, every variant).
Pipeline (all real code): crate `origin` (types + derive(Serialize, Deserialize, JsonSchema)) is built and run -> schemas
and serialized samples; typify generates T' by BOTH routes (root document; definitions map + add_type_with_name); the
compiled T' deserialises every sample and re-serialises it; `origin check` deserialises that back into T and compares with
the original value. Oracle: both steps Ok and equal; the two routes agree."""
import itertools
import json
import os
import shutil
import subprocess

from .. import batch, wire
from ..common import CARGO_ENV, NPROC, REPO, TOOLCHAIN, WORK, MachineryError, ensure_dir, key_of
from ..runner import Result, Violation

SCALARS = ["u8", "i32", "u64", "bool", "String", "f64", "char", "i8", "i16", "u16", "u32", "i64", "f32", "usize", "std::num::NonZeroU32"]
SAMPLES = {
    "char": ["'a'", "'\\u{e9}'", "'\\u{2022}'", "'\\u{1F600}'"], "i8": ["-128i8", "127i8"], "i16": ["-32768i16", "7i16"], "u16": ["0u16", "65535u16"],
    "u32": ["0u32", "4294967295u32"], "i64": ["-9223372036854775808i64", "9223372036854775807i64"], "f32": ["1.5f32", "-0.25f32"],
    "usize": ["0usize", "4096usize"], "std::num::NonZeroU32": ["std::num::NonZeroU32::new(1).unwrap()", "std::num::NonZeroU32::new(4294967295).unwrap()"],
    "u8": ["0u8", "255u8"], "i32": ["-7i32", "2147483647i32"], "u64": ["0u64", "18446744073709551615u64"], "bool": ["true", "false"],
    "String": ['String::new()', '"h\\u{e9}llo w".to_string()'], "f64": ["1.5f64", "-0.25f64"],
}


def rust_ty(t):
    if isinstance(t, str):
        return t
    k = t[0]
    if k == "opt":
        return "Option<%s>" % rust_ty(t[1])
    if k == "vec":
        return "Vec<%s>" % rust_ty(t[1])
    if k == "tuple":
        return "(%s, %s)" % (rust_ty(t[1]), rust_ty(t[2]))
    if k == "arr":
        return "[%s; 2]" % rust_ty(t[1])
    if k == "tuple1":
        return "(%s,)" % rust_ty(t[1])
    if k == "box":
        return "Box<%s>" % rust_ty(t[1])
    if k == "map":
        return "std::collections::BTreeMap<String, %s>" % rust_ty(t[1])
    if k == "set":
        return "std::collections::BTreeSet<%s>" % rust_ty(t[1])
    if k == "ref":
        return t[1]
    raise ValueError(t)


def samples(t, inner_samples):
    if isinstance(t, str):
        return SAMPLES[t]
    k = t[0]
    if k == "ref":
        return ["%s_samples()[%d].clone()" % (t[1].lower(), i) for i in range(inner_samples[t[1]])][:2]
    s = samples(t[1], inner_samples)
    if k == "opt":
        return ["None", "Some(%s)" % s[0]]
    if k == "vec":
        return ["vec![]", "vec![%s, %s]" % (s[0], s[-1])]
    if k == "tuple":
        s2 = samples(t[2], inner_samples)
        return ["(%s, %s)" % (s[0], s2[0]), "(%s, %s)" % (s[-1], s2[-1])]
    if k == "arr":
        return ["[%s, %s]" % (s[0], s[-1])]
    if k == "tuple1":
        return ["(%s,)" % s[0], "(%s,)" % s[-1]]
    if k == "box":
        return ["Box::new(%s)" % x for x in s]
    if k == "map":
        return ["std::collections::BTreeMap::new()", '[("k".to_string(), %s)].into_iter().collect()' % s[0]]
    if k == "set":
        return ["std::collections::BTreeSet::new()", "[%s, %s].into_iter().collect()" % (s[0], s[-1])]
    raise ValueError(t)


def field_types(refname=None):
    out = list(SCALARS)
    for x in ("i32", "String"):
        out += [("opt", x), ("vec", x), ("arr", x), ("box", x), ("map", x)]
    out += [("tuple", "i32", "String"), ("opt", ("vec", "u8")), ("vec", ("opt", "bool")), ("set", "String"), ("set", "i32"), ("opt", ("set", "u8")), ("opt", "char"), ("vec", "char"), ("tuple1", "i32"), ("tuple1", "String"), ("opt", ("tuple1", "bool"))]
    if refname:
        out += [("ref", refname), ("opt", ("ref", refname)), ("vec", ("ref", refname)), ("box", ("ref", refname)), ("map", ("ref", refname))]
    return out


TAGGINGS = {"external": "", "internal": '#[serde(tag = "t")]', "adjacent": '#[serde(tag = "t", content = "c")]', "untagged": "#[serde(untagged)]"}
# adjacent tagging under other (tag, content) names: the tag sorting before the content name, after it, and names needing no re-casing
EXTRA_TAGGINGS = {"adjacent_kv": '#[serde(tag = "kind", content = "value")]', "adjacent_ab": '#[serde(tag = "a", content = "b")]',
                  "adjacent_za": '#[serde(tag = "z", content = "a")]', "internal_kind": '#[serde(tag = "kind")]'}
RENAME_ALL = ["camelCase", "SCREAMING_SNAKE_CASE", "kebab-case"]


class TypeDef:
    def __init__(self, name, kind, fields=None, variants=None, tagging="external", attrs=None):
        self.name, self.kind, self.fields, self.variants, self.tagging = name, kind, fields or [], variants or [], tagging
        self.attrs = list(attrs or [])   # container-level serde attrs
        self.desc = ""

    def source(self, inner_samples):
        lines = list(getattr(self, "extra_items", []))
        lines.append("#[derive(Serialize, Deserialize, JsonSchema, PartialEq, Debug, Clone)]")
        cattrs = list(self.attrs)
        if self.kind == "enum" and dict(TAGGINGS, **EXTRA_TAGGINGS)[self.tagging]:
            lines.append(dict(TAGGINGS, **EXTRA_TAGGINGS)[self.tagging])
        for a in cattrs:
            lines.append("#[serde(%s)]" % a)
        if self.kind == "struct":
            lines.append("pub struct %s {" % self.name)
            for f in self.fields:
                for a in f.get("attrs", []):
                    lines.append("    #[serde(%s)]" % a)
                lines.append("    pub %s: %s," % (f["name"], rust_ty(f["ty"])))
            lines.append("}")
        elif self.kind == "tuple":
            lines.append("pub struct %s(%s);" % (self.name, ", ".join("pub " + rust_ty(f["ty"]) for f in self.fields)))
        elif self.kind == "unit":
            lines.append("pub struct %s;" % self.name)
        else:
            lines.append("pub enum %s {" % self.name)
            for v in self.variants:
                for a in v.get("attrs", []):
                    lines.append("    #[serde(%s)]" % a)
                if v["kind"] == "unit":
                    lines.append("    %s," % v["name"])
                elif v["kind"] == "newtype":
                    lines.append("    %s(%s)," % (v["name"], rust_ty(v["tys"][0])))
                elif v["kind"] == "tuple":
                    lines.append("    %s(%s)," % (v["name"], ", ".join(rust_ty(t) for t in v["tys"])))
                else:
                    lines.append("    %s { %s }," % (v["name"], ", ".join("%s%s: %s" % ("".join("#[serde(%s)] " % a for a in f.get("attrs", [])), f["name"], rust_ty(f["ty"]))
                                                                       for f in v["fields"])))
            lines.append("}")
        # samples
        vals = []
        if getattr(self, "sample_override", None):
            pass
        elif self.kind == "struct":
            for combo in itertools.product(*[samples(f["ty"], inner_samples) for f in self.fields]):
                vals.append("%s { %s }" % (self.name, ", ".join("%s: %s" % (f["name"], v) for f, v in zip(self.fields, combo))))
        elif self.kind == "tuple":
            for combo in itertools.product(*[samples(f["ty"], inner_samples) for f in self.fields]):
                vals.append("%s(%s)" % (self.name, ", ".join(combo)))
        elif self.kind == "unit":
            vals.append(self.name)
        else:
            for v in self.variants:
                if v["kind"] == "unit":
                    vals.append("%s::%s" % (self.name, v["name"]))
                elif v["kind"] in ("newtype", "tuple"):
                    for combo in itertools.product(*[samples(t, inner_samples) for t in v["tys"]]):
                        vals.append("%s::%s(%s)" % (self.name, v["name"], ", ".join(combo)))
                else:
                    for combo in itertools.product(*[samples(f["ty"], inner_samples) for f in v["fields"]]):
                        vals.append("%s::%s { %s }" % (self.name, v["name"], ", ".join("%s: %s" % (f["name"], x) for f, x in zip(v["fields"], combo))))
        vals = vals[:12]
        if getattr(self, "sample_override", None):
            vals = list(self.sample_override)
        self.nsamples = len(vals)
        lines.append("pub fn %s_samples() -> Vec<%s> { vec![%s] }" % (self.name.lower(), self.name, ", ".join(vals)))
        return "\n".join(lines)


def inner_types():
    """inner kinds for two-type universes"""
    return {
        "InS": lambda n: TypeDef(n, "struct", [{"name": "x", "ty": "i32"}, {"name": "opt_y", "ty": ("opt", "String")}]),
        "InN": lambda n: TypeDef(n, "tuple", [{"name": "0", "ty": "String"}]),
        "InE": lambda n: TypeDef(n, "enum", variants=[{"name": "Alpha", "kind": "unit"}, {"name": "BetaGamma", "kind": "unit"}]),
        "InT": lambda n: TypeDef(n, "enum", variants=[{"name": "A", "kind": "newtype", "tys": ["i32"]}, {"name": "B", "kind": "struct", "fields": [{"name": "z", "ty": "bool"}]}],
                                 tagging="adjacent"),
    }


def universes(tier):
    """list of universes; a universe = list of TypeDef, the last one is the root"""
    out = []
    n = [0]

    def nm():
        n[0] += 1
        return "T%04d" % n[0]

    def add(root, inner=None, desc=""):
        root.desc = desc
        out.append(([inner] if inner else []) + [root])
    fts = field_types()
    # named struct, one field of every field type; tuple struct / newtype of every field type
    for ft in fts:
        add(TypeDef(nm(), "struct", [{"name": "field_one", "ty": ft}]), desc="struct1(%s)" % rust_ty(ft))
        add(TypeDef(nm(), "tuple", [{"name": "0", "ty": ft}]), desc="newtype(%s)" % rust_ty(ft))
    add(TypeDef(nm(), "unit"), desc="unit")
    add(TypeDef(nm(), "tuple", [{"name": "0", "ty": "i32"}, {"name": "1", "ty": "String"}]), desc="tuple2")
    base_fields = [{"name": "alpha_one", "ty": "i32"}, {"name": "beta_two", "ty": ("opt", "String")}]
    # attribute deviations on a two-field struct
    feats = [("rename_all", ra) for ra in RENAME_ALL] + [("crename", None), ("frename", None), ("fdefault", None), ("deny", None), ("skip", None), ("cdefault", None)]
    kdev = 1 if tier == "quick" else 2
    for r in range(0, kdev + 1):
        for combo in itertools.combinations(feats, r):
            if sum(1 for c in combo if c[0] == "rename_all") > 1:
                continue
            t = TypeDef(nm(), "struct", [dict(f) for f in base_fields])
            for (f, arg) in combo:
                if f == "rename_all":
                    t.attrs.append('rename_all = "%s"' % arg)
                elif f == "crename":
                    t.attrs.append('rename = "Renamed%s"' % t.name)
                elif f == "frename":
                    t.fields[0]["attrs"] = t.fields[0].get("attrs", []) + ['rename = "weird-Name"']
                elif f == "fdefault":
                    t.fields[0]["attrs"] = t.fields[0].get("attrs", []) + ["default"]
                elif f == "deny":
                    t.attrs.append("deny_unknown_fields")
                elif f == "skip":
                    t.fields[1]["attrs"] = t.fields[1].get("attrs", []) + ['skip_serializing_if = "Option::is_none"']
                elif f == "cdefault":
                    t.attrs.append("default")
            if any(f == "cdefault" for f, _ in combo):
                # container default needs Default: only for the base field types (i32, Option<String>)
                t.derive_default = True
            add(t, desc="struct2{%s}" % ",".join("%s=%s" % c if c[1] else c[0] for c in combo))
    # `#[serde(default, skip_serializing_if = "<container>::is_empty")]` on every container kind (and the Option form): T omits the member when it is
    # empty, so T' must accept its absence; as a struct member and as a member of a struct variant
    skips = [(("vec", "i32"), "Vec::is_empty"), (("map", "i32"), "std::collections::BTreeMap::is_empty"), (("map", "String"), "std::collections::BTreeMap::is_empty"),
             (("set", "String"), "std::collections::BTreeSet::is_empty"), ("String", "String::is_empty"), (("opt", ("map", "i32")), "Option::is_none"),
             (("opt", ("vec", "u8")), "Option::is_none")]
    for ft, pred in skips:
        fld = {"name": "labels", "ty": ft, "attrs": ["default", 'skip_serializing_if = "%s"' % pred]}
        add(TypeDef(nm(), "struct", [{"name": "name", "ty": "String"}, dict(fld)]), desc="struct{skip_if_empty %s}" % rust_ty(ft))
        if tier != "quick" or ft in (("map", "i32"), ("vec", "i32")):
            add(TypeDef(nm(), "enum", variants=[{"name": "Plain", "kind": "unit"}, {"name": "Tagged", "kind": "struct", "fields": [{"name": "name", "ty": "String"}, dict(fld)]}],
                        tagging="internal"), desc="enum:internal[struct variant with skip_if_empty %s]" % rust_ty(ft))
    # enums: tagging x variant kind sets
    payloads = ["i32", "String", ("vec", "u8"), ("opt", "i32"), ("tuple", "i32", "String"), ("tuple1", "i32"), ("arr", "i32")] if tier != "quick" else ["i32", "String", ("tuple1", "i32")]
    for tagging in TAGGINGS:
        vsets = []
        kinds = ["unit", "newtype", "tuple", "struct"]
        if tagging == "internal":
            kinds = ["unit", "struct"]
        for r in (1, 2, 3):
            for ks in itertools.combinations_with_replacement(kinds, r):
                if tagging == "untagged" and ks.count("unit") > 1:
                    continue
                vsets.append(ks)
        for ks in vsets:
            for p in (payloads if len(ks) <= 2 else payloads[:1]):
                if tagging == "untagged" and len(ks) > 1 and isinstance(p, tuple) and p[0] == "opt":
                    continue
                vs = []
                for i, k in enumerate(ks):
                    vname = ["First", "SecondOne", "Third"][i]
                    if k == "unit":
                        vs.append({"name": vname, "kind": "unit"})
                    elif k == "newtype":
                        # distinct payload types per variant so that untagged stays decidable
                        pt = p if i == 0 else ("vec", p) if i == 1 else ("map", "bool")
                        vs.append({"name": vname, "kind": "newtype", "tys": [pt]})
                    elif k == "tuple":
                        vs.append({"name": vname, "kind": "tuple", "tys": [p, "bool"] + (["u8"] if i else []) + (["String"] if i == 2 else [])})
                    else:
                        vs.append({"name": vname, "kind": "struct", "fields": [{"name": "inner_field%d" % i, "ty": p}]})
                t = TypeDef(nm(), "enum", variants=vs, tagging=tagging)
                add(t, desc="enum:%s[%s](%s)" % (tagging, ",".join(ks), rust_ty(p)))
                if tier != "quick" and p == "i32":
                    for ra in RENAME_ALL:
                        t2 = TypeDef(nm(), "enum", variants=[dict(v) for v in vs], tagging=tagging, attrs=['rename_all = "%s"' % ra])
                        add(t2, desc="enum:%s[%s]{rename_all=%s}" % (tagging, ",".join(ks), ra))
                    t3 = TypeDef(nm(), "enum", variants=[dict(v, attrs=['rename = "v-%d"' % i]) for i, v in enumerate(vs)], tagging=tagging)
                    add(t3, desc="enum:%s[%s]{variant rename}" % (tagging, ",".join(ks)))
                    if any(k == "struct" for k in ks):
                        t4 = TypeDef(nm(), "enum", variants=[dict(v) for v in vs], tagging=tagging, attrs=["deny_unknown_fields"])
                        add(t4, desc="enum:%s[%s]{deny}" % (tagging, ",".join(ks)))
    for tagging in EXTRA_TAGGINGS:
        vs = [{"name": "Empty", "kind": "unit"}, {"name": "Rect", "kind": "struct", "fields": [{"name": "w", "ty": "i32"}, {"name": "label", "ty": "String"}]}]
        if not tagging.startswith("internal"):
            vs += [{"name": "Circle", "kind": "newtype", "tys": ["i32"]}, {"name": "Pair", "kind": "tuple", "tys": ["i32", "bool"]}]
        add(TypeDef(nm(), "enum", variants=vs, tagging=tagging), desc="enum:%s[unit,struct%s]" % (tagging, "" if tagging.startswith("internal") else ",newtype,tuple"))
    # member-less struct variants (`Resume {}`): schemars writes an object schema with no properties (closed under deny_unknown_fields)
    for tagging in TAGGINGS:
        for deny in (False, True):
            vs = [{"name": "Resume", "kind": "struct", "fields": []}, {"name": "GoTo", "kind": "struct", "fields": [{"name": "line", "ty": "i32"}]}]
            if tagging != "untagged":
                vs.append({"name": "Halt", "kind": "unit"})
            else:
                vs = vs[::-1]   # untagged: the variant with a member first (an empty open struct variant would swallow every object)
            add(TypeDef(nm(), "enum", variants=vs, tagging=tagging, attrs=["deny_unknown_fields"] if deny else []), desc="enum:%s[empty struct variant]%s" % (tagging, "{deny}" if deny else ""))
    # struct variants ALL of whose members may be absent (Option<_> / #[serde(default)]): no member is required, yet the variant has data
    for tagging in TAGGINGS:
        for deny in (False, True):
            vs = [{"name": "Sleep", "kind": "struct", "fields": [{"name": "millis", "ty": ("opt", "i32")}, {"name": "note", "ty": ("opt", "String")}]},
                  {"name": "Wake", "kind": "struct", "fields": [{"name": "level", "ty": "i32", "attrs": ["default"]}]}]
            if tagging != "untagged":
                vs.append({"name": "Halt", "kind": "unit"})
            else:
                vs = [{"name": "GoTo", "kind": "struct", "fields": [{"name": "line", "ty": "i32"}]}] + vs[:1]
            add(TypeDef(nm(), "enum", variants=vs, tagging=tagging, attrs=["deny_unknown_fields"] if deny else []), desc="enum:%s[all-optional struct variant]%s" % (tagging, "{deny}" if deny else ""))
    for deny in (False, True):
        add(TypeDef(nm(), "struct", [], attrs=["deny_unknown_fields"] if deny else []), desc="struct0%s" % ("{deny}" if deny else ""))
    # custom default functions (#[serde(default = "f")]): field type x {zero-like, non-zero} value; schemars writes f()'s value as `default`
    cdf = [("i32", "0i32", "8i32"), ("String", "String::new()", '"d".to_string()'), ("bool", "false", "true"),
           (("opt", "i32"), "Some(0i32)", "Some(8i32)"), (("opt", "String"), "Some(String::new())", 'Some("x".to_string())'),
           (("opt", "bool"), "Some(false)", "Some(true)"), (("vec", "u8"), "vec![]", "vec![1u8]"), (("opt", ("vec", "u8")), "Some(vec![])", "Some(vec![1u8])"),
           (("set", "String"), "std::collections::BTreeSet::new()", '["alpha".to_string(), "beta".to_string()].into_iter().collect()'),
           (("set", "i32"), "std::collections::BTreeSet::new()", "[3i32, 1i32, 2i32].into_iter().collect()"),
           (("map", "i32"), "std::collections::BTreeMap::new()", '[("k".to_string(), 1i32)].into_iter().collect()'),
           (("tuple", "i32", "String"), '(0i32, String::new())', '(7i32, "t".to_string())'), (("arr", "i32"), "[0i32, 0i32]", "[1i32, 2i32]"),
           # defaults that sit exactly on a limit of the member's integer type
           ("u8", "u8::MIN", "u8::MAX"), ("i8", "i8::MIN", "i8::MAX"), ("u32", "1u32", "u32::MAX"), ("i64", "i64::MIN", "i64::MAX"), ("u64", "u64::MAX - 1", "u64::MAX"),
           ("i16", "i16::MIN", "i16::MAX"), (("opt", "u16"), "Some(u16::MAX)", "Some(u16::MIN)")]
    for (ft, zero, nonzero) in cdf:
        for cls, val in (("zero", zero), ("nonzero", nonzero)):
            name = nm()
            fn = "dflt_%s" % name.lower()
            t = TypeDef(name, "struct", [{"name": "with_default", "ty": ft, "attrs": ['default = "%s"' % fn]}, {"name": "other", "ty": "i32"}])
            t.extra_items = ["pub fn %s() -> %s { %s }" % (fn, rust_ty(ft), val)]
            add(t, desc="struct{default fn -> %s (%s) : %s}" % (val, cls, rust_ty(ft)))
    # untagged enums mixing an Option<integer> payload (schemars: type [integer, null]) with float / bool / string payloads
    for combo in ([("opt", "i64"), "f64", "bool"], ["f64", ("opt", "i32")], [("opt", "u8"), "String"], [("opt", "f64"), ("vec", "i32")]):
        vs = [{"name": ["First", "SecondOne", "Third"][i], "kind": "newtype", "tys": [p]} for i, p in enumerate(combo)]
        add(TypeDef(nm(), "enum", variants=vs, tagging="untagged"), desc="enum:untagged[newtype...](%s)" % ",".join(rust_ty(p) for p in combo))
    # self-referential root types: schemars puts the root type into `definitions` as well, under the root's own title
    def selfref(name, kind):
        if kind == "opt_box":
            t = TypeDef(name, "struct", [{"name": "next", "ty": ("opt", ("box", ("ref", name)))}, {"name": "v", "ty": "i32"}])
            t.sample_override = ["%s { next: None, v: -7i32 }" % name, "%s { next: Some(Box::new(%s { next: None, v: 1i32 })), v: 2i32 }" % (name, name)]
        elif kind == "vec":
            t = TypeDef(name, "struct", [{"name": "kids", "ty": ("vec", ("ref", name))}, {"name": "label", "ty": "String"}])
            t.sample_override = ["%s { kids: vec![], label: String::new() }" % name,
                                 "%s { kids: vec![%s { kids: vec![], label: \"a\".to_string() }], label: \"b\".to_string() }" % (name, name)]
        else:
            t = TypeDef(name, "enum", variants=[{"name": "Leaf", "kind": "newtype", "tys": ["i32"]}, {"name": "Node", "kind": "newtype", "tys": [("vec", ("ref", name))]}])
            t.sample_override = ["%s::Leaf(3i32)" % name, "%s::Node(vec![%s::Leaf(1i32), %s::Node(vec![])])" % (name, name, name)]
        return t
    for kind in ("opt_box", "vec", "enum"):
        add(selfref(nm(), kind), desc="selfref(%s)" % kind)
    # all-unit enums (C-like)
    for tagging in ("external", "adjacent") if tier == "quick" else ("external", "adjacent", "internal"):
        add(TypeDef(nm(), "enum", variants=[{"name": "North", "kind": "unit"}, {"name": "SouthEast", "kind": "unit"}], tagging=tagging), desc="enum:%s[units]" % tagging)
    # untagged fixed-length arrays of different lengths, both orders (longer first / shorter first)
    for order in ((3, 2), (2, 3)):
        vs = [{"name": "V%d" % n_, "kind": "newtype", "tys": [("arrn", "i32", n_)]} for n_ in order]
        add(TypeDef(nm(), "enum", variants=vs, tagging="untagged"), desc="enum:untagged[[i32;%d],[i32;%d]]" % order)
        vs = [{"name": "V%d" % n_, "kind": "tuple", "tys": ["u32x", "String"] + (["bool"] if n_ == 3 else [])} for n_ in order]
        add(TypeDef(nm(), "enum", variants=vs, tagging="untagged"), desc="enum:untagged[tuple%d,tuple%d]" % order)
    # two-type universes: every outer kind refers to every inner kind
    if tier != "quick":
        for iname, mk in inner_types().items():
            for ft in [("ref", None), ("opt", ("ref", None)), ("vec", ("ref", None)), ("box", ("ref", None)), ("map", ("ref", None))]:
                inner = mk(nm().replace("T", "In"))

                def sub(t):
                    if t == ("ref", None):
                        return ("ref", inner.name)
                    if isinstance(t, tuple):
                        return tuple(sub(x) if isinstance(x, tuple) else x for x in t)
                    return t
                ftt = sub(ft)
                add(TypeDef(nm(), "struct", [{"name": "holder", "ty": ftt}, {"name": "n", "ty": "u8"}]), inner, desc="struct(%s of %s)" % (ft[0], iname))
                taggings = ("external", "adjacent", "untagged") + (("internal",) if (iname == "InS" and ft == ("ref", None)) else ())
                for tagging in taggings:
                    inner2 = mk(nm().replace("T", "In"))
                    ftt2 = ("ref", inner2.name) if ft == ("ref", None) else (ft[0], ("ref", inner2.name))
                    add(TypeDef(nm(), "enum", variants=[{"name": "Holds", "kind": "newtype", "tys": [ftt2]}, {"name": "Other", "kind": "struct", "fields": [{"name": "flag", "ty": "bool"}]}],
                                tagging=tagging), inner2, desc="enum:%s(%s of %s)" % (tagging, ft[0], iname))
    else:
        for iname, mk in inner_types().items():
            inner = mk(nm().replace("T", "In"))
            add(TypeDef(nm(), "struct", [{"name": "holder", "ty": ("ref", inner.name)}, {"name": "list", "ty": ("vec", ("ref", inner.name))}]), inner, desc="struct(ref of %s)" % iname)
    return out


# extra field types used by the fixed-array family
_orig_rust_ty = rust_ty


def rust_ty(t):  # noqa: F811
    if t == "u32x":
        return "u32"
    if isinstance(t, tuple) and t[0] == "arrn":
        return "[%s; %d]" % (_orig_rust_ty(t[1]), t[2])
    return _orig_rust_ty(t)


_orig_samples = samples


def samples(t, inner_samples):  # noqa: F811
    if t == "u32x":
        return ["7u32", "4294967295u32"]
    if isinstance(t, tuple) and t[0] == "arrn":
        return ["[%s]" % ", ".join(["1i32", "-2i32", "3i32"][: t[2]])]
    return _orig_samples(t, inner_samples)


ORIGIN_MAIN = r'''#![allow(warnings)]
use schemars::{schema_for, JsonSchema};
use serde::{Deserialize, Serialize};
use serde_json::{json, Map, Value};
use std::io::BufRead;
mod types;
use types::*;

fn reg<T: Serialize + serde::de::DeserializeOwned + JsonSchema + PartialEq>(m: &mut Map<String, Value>, name: &str, ss: Vec<T>) {
    let vals: Vec<Value> = ss.iter().map(|s| serde_json::to_value(s).unwrap()).collect();
    let ok: Vec<bool> = ss.iter().zip(&vals).map(|(s, v)| serde_json::from_value::<T>(v.clone()).map(|b| &b == s).unwrap_or(false)).collect();
    m.insert(name.to_string(), json!({"schema": schema_for!(T), "samples": vals, "self_ok": ok}));
}
fn chk<T: serde::de::DeserializeOwned + PartialEq>(ss: Vec<T>, idx: usize, v: Value) -> Value {
    match serde_json::from_value::<T>(v) {
        Ok(t) => json!({"ok": true, "equal": t == ss[idx]}),
        Err(e) => json!({"ok": false, "err": e.to_string()}),
    }
}
fn main() {
    let mode = std::env::args().nth(1).unwrap();
    if mode == "dump" {
        let mut m = Map::new();
        types::register(&mut m);
        println!("{}", Value::Object(m));
    } else {
        let f = std::io::BufReader::new(std::fs::File::open(std::env::args().nth(2).unwrap()).unwrap());
        for line in f.lines() {
            let p: Value = serde_json::from_str(&line.unwrap()).unwrap();
            let r = types::check(p["name"].as_str().unwrap(), p["idx"].as_u64().unwrap() as usize, p["json"].clone());
            println!("{}", json!({"i": p["i"], "res": r}));
        }
    }
}
'''


def build_origin(unis, tier):
    d = os.path.join(WORK, "batch", "c04_origin_" + tier)
    if os.path.exists(d):
        shutil.rmtree(d)
    ensure_dir(os.path.join(d, "src"))
    with open(os.path.join(d, "Cargo.toml"), "w") as f:
        f.write('[package]\nname = "c04_origin_%s"\nversion = "0.0.0"\nedition = "2021"\npublish = false\n\n[workspace]\n\n[dependencies]\n'
                'serde = { version = "1.0.219", features = ["derive"] }\nserde_json = "1.0.140"\nschemars = "0.8.22"\n\n[profile.dev]\ndebug = 0\nopt-level = 0\nincremental = false\n' % tier)
    shutil.copy(os.path.join(REPO, "Cargo.lock"), os.path.join(d, "Cargo.lock"))
    with open(os.path.join(d, "rust-toolchain.toml"), "w") as f:
        f.write('[toolchain]\nchannel = "1.80.1"\n')
    src = ["use super::*;", "use schemars::JsonSchema;", "use serde::{Deserialize, Serialize};"]
    inner_samples = {}
    regs, checks = [], []
    for uni in unis:
        for t in uni:
            s = t.source(inner_samples)
            if getattr(t, "derive_default", False):
                s = s.replace("#[derive(Serialize,", "#[derive(Default, Serialize,", 1)
            src.append(s)
            inner_samples[t.name] = t.nsamples
        root = uni[-1]
        regs.append('    reg::<%s>(m, "%s", %s_samples());' % (root.name, root.name, root.name.lower()))
        checks.append('        "%s" => chk::<%s>(%s_samples(), idx, v),' % (root.name, root.name, root.name.lower()))
    src.append("pub fn register(m: &mut Map<String, Value>) {\n%s\n}" % "\n".join(regs))
    src.append("pub fn check(name: &str, idx: usize, v: Value) -> Value {\n    match name {\n%s\n        _ => json!({\"ok\": false, \"err\": \"unknown type\"}),\n    }\n}" % "\n".join(checks))
    with open(os.path.join(d, "src", "types.rs"), "w") as f:
        f.write("\n\n".join(src))
    with open(os.path.join(d, "src", "main.rs"), "w") as f:
        f.write(ORIGIN_MAIN)
    env = dict(CARGO_ENV)
    env["CARGO_TARGET_DIR"] = batch.TARGET
    p = subprocess.run(["cargo", TOOLCHAIN, "build", "--offline", "-j", str(NPROC)], cwd=d, env=env, stdout=subprocess.PIPE, stderr=subprocess.PIPE)
    if p.returncode != 0:
        raise MachineryError("origin crate does not build (grammar produced invalid Rust?):\n" + p.stderr.decode(errors="replace")[-3000:])
    exe = os.path.join(batch.TARGET, "debug", "c04_origin_" + tier)
    p = subprocess.run([exe, "dump"], stdout=subprocess.PIPE, stderr=subprocess.PIPE)
    if p.returncode != 0:
        raise MachineryError("origin dump failed: " + p.stderr.decode(errors="replace")[-2000:])
    return exe, json.loads(p.stdout.decode()), d


def _safe_source(root):
    try:
        return root.source({})[:1500]
    except KeyError:
        return root.desc   # refers to an inner type; the description names the shape


def cases(tier, seed):
    unis = universes(tier)
    return [{"name": u[-1].name, "desc": u[-1].desc, "key": key_of(["C04", tier, u[-1].name, u[-1].desc])} for u in unis]


def execute(cases_, tier, seed):
    res = Result()
    if len(cases_) == 1:
        # replay: rebuild the whole universe set of the tier the case came from (names are positional)
        rep_tier = "thorough" if int(cases_[0]["name"][1:]) > len(universes("quick")) + 5 else tier
        only = cases_[0]["name"]
        tier_build = tier
    else:
        only = None
        tier_build = tier
    unis = universes(tier_build)
    exe, dump, odir = build_origin(unis, tier_build)
    res.rule = ("one case = one root Rust type (with the types it refers to); its schemars schema is converted by BOTH ingestion routes, every sample value "
                "crosses T -> JSON -> T' -> JSON -> T; non-trivial = type with >=2 distinct serialized samples; distinct by type definition")
    placed, owner = [], []
    for u in unis:
        root = u[-1]
        if only and root.name != only:
            continue
        d = dump[root.name]
        schema = d["schema"]
        insts = [s for s, ok in zip(d["samples"], d["self_ok"]) if ok]
        idxs = [i for i, ok in enumerate(d["self_ok"]) if ok]
        title = (schema.get("title") or root.name)
        rootless = {k: v for k, v in schema.items() if k not in ("definitions", "$schema")}
        defs = schema.get("definitions", {})
        placed.append({"id": "%s[%s]/root" % (root.name, root.desc), "doc": schema, "target": None, "ops": [{"root": schema}], "instances": insts})
        owner.append((root, "root", idxs))
        ops2 = ([{"refs": defs}] if defs else []) + [{"type": rootless, "hint": title}]
        placed.append({"id": "%s[%s]/defs" % (root.name, root.desc), "doc": schema, "target": None, "ops": ops2, "instances": insts})
        owner.append((root, "defs", idxs))
    wcs = wire.run(placed, {"struct_builder": False}, "c04_" + tier if not only else "replay_c04", use_cache=False)
    # origin check of everything T' wrote back
    lines, back = [], []
    for (root, route, idxs), wc in zip(owner, wcs):
        if not wc.compiled:
            continue
        for idx, rec in zip(idxs, wc.instances):
            r = rec["res"] or {}
            if r.get("ok") and "v" in (r.get("w") or {}):
                lines.append({"i": len(lines), "name": root.name, "idx": idx, "json": r["w"]["v"]})
                back.append((wc.key, idx))
    cf = os.path.join(odir, "check.jsonl")
    with open(cf, "w") as f:
        for l in lines:
            f.write(json.dumps(l) + "\n")
    p = subprocess.run([exe, "check", cf], stdout=subprocess.PIPE, stderr=subprocess.PIPE)
    if p.returncode != 0:
        raise MachineryError("origin check failed: " + p.stderr.decode(errors="replace")[-2000:])
    backres = {}
    for line in p.stdout.decode().split("\n"):
        if line.strip():
            o = json.loads(line)
            backres[back[o["i"]]] = o["res"]
    n_values = 0
    by_root = {}
    for (root, route, idxs), wc in zip(owner, wcs):
        res.transitions += 1
        feats = {"desc": root.desc, "route": route}
        c = {"name": root.name, "desc": root.desc, "key": key_of(["C04", tier, root.name, root.desc]), "schema": wc.placed["doc"], "rust": _safe_source(root)}
        if wc.compiled is None:
            res.violations.append(Violation(c["key"], "rejected:" + route, "%s: schemars schema not ingested via %s route: %s" % (wc.id, route, wc.ingest), c,
                                            expected="ingest ok", observed={"ingest": wc.ingest, "ops": (wc.answer or {}).get("ops")}, features=feats))
            continue
        if not wc.compiled:
            res.violations.append(Violation(c["key"], "uncompilable:" + route, "%s: generated type does not compile: %s" % (wc.id, wc.errors[0]["msg"]), c,
                                            expected="compiles", observed=wc.errors[:4], features=feats))
            continue
        bad = []
        vec = []
        for idx, rec in zip(idxs, wc.instances):
            n_values += 1
            res.transitions += 2
            r = rec["res"] or {}
            if not r.get("ok"):
                bad.append({"sample": rec["v"], "step": "T' rejects the serialization of a value of T", "observed": r})
                vec.append((idx, "rejected"))
                continue
            b = backres.get((wc.key, idx))
            vec.append((idx, json.dumps(r["w"].get("v"), sort_keys=True)))
            if not b or not b.get("ok") or not b.get("equal"):
                bad.append({"sample": rec["v"], "step": "T does not read back what T' wrote", "written": r["w"].get("v"), "observed": b})
        by_root.setdefault(root.name, {})[route] = (vec, c)
        if bad:
            res.violations.append(Violation(c["key"], "wire-incompatible:" + route, "%s: %s: %s" % (wc.id, bad[0]["step"], json.dumps(bad[0]["sample"])[:120]), c,
                                            expected="from_value::<T'>(to_value(x)) Ok and T reads it back equal to x", observed=bad[:6], features=feats,
                                            items=[b["sample"] for b in bad]))
    for name, routes in by_root.items():
        res.states += 1
        if "root" in routes and "defs" in routes and routes["root"][0] != routes["defs"][0]:
            c = routes["root"][1]
            res.violations.append(Violation(c["key"], "routes-differ", "%s: the two ingestion routes behave differently" % name, c, expected="same behaviour",
                                            observed={"root": routes["root"][0][:6], "defs": routes["defs"][0][:6]}, features={"desc": c["desc"]}))
        if len({v for _, v in (routes.get("root") or routes.get("defs"))[0]}) >= 2:
            res.nontrivial += 1
    res.states = max(res.states, len({o[0].name for o in owner}))
    res.evaluations = res.transitions
    res.extra.update({"rust_types": len(unis), "sample_values_crossed": n_values,
                      "samples_excluded_because_T_itself_does_not_roundtrip": sum(1 for u in unis for ok in dump[u[-1].name]["self_ok"] if not ok)})
    res.samples = [{"name": u[-1].name, "desc": u[-1].desc, "schema": dump[u[-1].name]["schema"]} for u in unis[:: max(1, len(unis) // 4)]][:4]
    res.bound = "tier=%s: %d root types from the grammar (attribute deviations k<=%d%s); <=12 sample values per type (full product of 2 values per field type)" % (
        tier, len(unis), 1 if tier == "quick" else 2, "" if tier == "quick" else "; two-type universes for every outer x inner kind")
    res.assumptions = ["schemars 0.8.22 with default (draft-07) settings produces the schemas", "sample values that T itself cannot round-trip through serde_json are excluded (counted)"]
    shutil.rmtree(odir, ignore_errors=True)
    if not res.violations and (len(unis) > 20 and n_values < 200):   # a subject that breaks everything is reported through its violations, not as vacuity
        raise MachineryError("vacuity guard: only %d values crossed" % n_values)
    return res
