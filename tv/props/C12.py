"""C12 — generated output is a deterministic function of settings and schema.
Sources of nondeterminism and how each is owned:
 1. input encoding: every document is re-serialised with every permutation of the keys of every object that has <=4 keys
    (else rotations + reversal), applied at <= k object nodes at a time (k=1 quick, 2 thorough), and in three whitespace
    styles; fed as TEXT through the real parser path (serde_json -> RootSchema). Oracle: byte-identical tokens.
 2. repeated rendering: to_stream() twice with an iter_types() walk in between: identical strings.
 3. hash iteration order (what a fresh process decides): the same inputs are converted in fresh adapter processes under
    LD_PRELOAD=libgr.so with VERIF_HASH_SEED in 0..7 (quick) / 0..31 (thorough): std's RandomState keys derive from the
    seed (interposed `getrandom`), so every HashMap/HashSet in typify-impl iterates in a seed-dependent order. Oracle:
    byte-identical tokens across seeds. This leg enumerates seeds; it is NOT exhaustive over all 2^128 keys and is reported
    separately in the evidence. An audit lists every Hash(Map|Set) token in non-test code of the three crates.
 4. process history (state a process keeps between type spaces: statics, thread-locals, caches): every document is also converted
    as one job of a single-threaded process that works through the WHOLE document list, in list order and in reverse order;
    the output must equal the one the document gets in its other processes.
Documents: the depth-2 space, C07's recursion graphs (cycle breaking is order sensitive) and a diamond family in which a
definition outside a cycle reaches it through two children."""
import itertools
import json
import os
import re
import subprocess

from .. import adapter
from ..common import MachineryError, REPO, VERIF, WORK, key_of
from ..menus import shapes
from ..runner import Result, Violation
from . import C07

LIBGR = os.path.join(WORK, "libgr.so")
HIST_REPEAT = 6   # leg 4: the whole list is worked through this many times by the one process


def ensure_libgr():
    src = os.path.join(VERIF, "engine", "hashseed", "gr.c")
    if not os.path.exists(LIBGR) or os.path.getmtime(LIBGR) < os.path.getmtime(src):
        os.makedirs(WORK, exist_ok=True)
        p = subprocess.run(["gcc", "-shared", "-fPIC", "-O2", "-o", LIBGR, src], stdout=subprocess.PIPE, stderr=subprocess.PIPE)
        if p.returncode != 0:
            raise MachineryError("cannot build libgr.so: " + p.stderr.decode())
    return LIBGR


def diamond_family():
    out = []
    kinds = ("req", "opt")
    top_edges = [((k1, 1), (k2, 2)) for k1 in kinds for k2 in kinds]
    side = [()] + [((k, t),) for k in kinds for t in (0, 1, 2)]
    for te in top_edges:
        for a in side:
            for b in side:
                nodes = [("struct", te), ("struct", a), ("struct", b)]
                out.append(C07.mk(nodes, False))
    return out


def documents(tier):
    docs = []
    for p in shapes.space_depth2("quick" if tier == "quick" else tier, contexts=["def", "member_opt", "ext_payload"] if tier == "quick" else ["def", "member_opt", "ext_payload", "root", "vec_item"]):
        docs.append({"id": p["id"], "doc": p["doc"], "settings": {"struct_builder": True}})
    for c in C07.cases("quick", 0):
        if (c["n"] == 2 and not c.get("repl") and (tier != "quick" or all(nd[0] in ("struct", "alias", "enum") for nd in c["nodes"]))) or (c["n"] == 1 and c["share"]):
            docs.append({"id": "graph:" + c["key"], "doc": c["doc"], "settings": {}})
    for c in diamond_family():
        docs.append({"id": "diamond:" + c["key"], "doc": c["doc"], "settings": {}})
    if tier != "quick":
        for p in shapes.pairs(tier)[::3]:
            docs.append({"id": p["id"], "doc": p["doc"], "settings": {"struct_builder": True}})
    # documents whose rendering goes through the shared `defaults` module and through name-collision handling
    from . import C01, C06
    for c in C01.collision_family():
        if c["shape"] in ("default-fn-names", "type-default-omits-member") or tier != "quick":
            docs.append({"id": "collide:" + c["id"], "doc": c["doc"], "settings": c.get("settings", {"struct_builder": True})})
    seen_kind = set()
    for c in C06.cases(tier, 0):
        if c["valid"] and c["pos"] == "member" and c["ops"] is None and c.get("src") == "hand" and (tier != "quick" or c["kind"] not in seen_kind):
            seen_kind.add(c["kind"])
            docs.append({"id": "default:" + c["id"], "doc": c["doc"], "settings": c["settings"]})
    # settings that hold SEVERAL entries per table (crates spelled with - and _, two replacements, two patches, two conversions): which entry
    # applies must not depend on an iteration order
    from . import C13, C14
    for site in ("member", "inline"):
        xdoc = C13.build_doc(site, "^1.2.3", "0", None, None)
        for (sa, sb) in (({"version": "*", "rename": "alpha"}, {"version": "*", "rename": "beta"}), ({"version": "1.2.4"}, {"version": "!"}),
                         ({"version": "!"}, {"version": "*", "rename": "gamma"})):
            for policy in ("generate", "allow"):
                st = {"unknown_crates": policy, "crates": {"ext-crate": sa, "ext_crate": sb, "other-crate": {"version": "*"}, "other_crate": {"version": "!"}}}
                docs.append({"id": "crates2:%s:%s:%s" % (site, json.dumps([sa, sb]), policy), "doc": xdoc, "settings": st})
    seen, res = set(), []
    for d in docs:
        k = key_of([d["doc"], d["settings"]])
        if k not in seen:
            seen.add(k)
            d["key"] = k
            res.append(d)
    return res


def cases(tier, seed):
    return documents(tier)


# ---------- key-order / whitespace variants of one document --------------------------------------------

def object_nodes(x, path=()):
    if isinstance(x, dict):
        yield path, x
        for k, v in x.items():
            yield from object_nodes(v, path + (k,))
    elif isinstance(x, list):
        for i, v in enumerate(x):
            yield from object_nodes(v, path + (i,))


def orders(keys):
    keys = list(keys)
    if len(keys) <= 1:
        return []
    if len(keys) <= 4:
        return [list(p) for p in itertools.permutations(keys) if list(p) != keys]
    out = [keys[::-1]]
    for r in range(1, len(keys)):
        out.append(keys[r:] + keys[:r])
    return out


def reorder(x, plan, path=()):
    if isinstance(x, dict):
        ks = plan.get(path, list(x.keys()))
        return {k: reorder(x[k], plan, path + (k,)) for k in ks}
    if isinstance(x, list):
        return [reorder(v, plan, path + (i,)) for i, v in enumerate(x)]
    return x


def text_variants(doc, k, cap):
    """(label, text) for key-order deviations at <= k object nodes and three whitespace styles"""
    nodes = [(p, o) for p, o in object_nodes(doc) if len(o) > 1]
    out = []
    canon_text = json.dumps(doc)
    out.append(("ws:indent", json.dumps(doc, indent=3)))
    out.append(("ws:compact", json.dumps(doc, separators=(",", ":"))))
    out.append(("ws:odd", "\n\t " + json.dumps(doc, indent=1).replace(": ", " :\t").replace("\n", "\r\n") + "\n\n"))
    singles = []
    for p, o in nodes:
        for od in orders(o.keys()):
            singles.append((p, od))
    for p, od in singles:
        out.append(("order@%s" % "/".join(map(str, p)), json.dumps(reorder(doc, {p: od}))))
    if k >= 2:
        # pairs of nodes: reversal at both (the full product of permutations at two nodes is capped by `cap`)
        for (p1, o1), (p2, o2) in itertools.combinations(nodes, 2):
            out.append(("order2@%s+%s" % ("/".join(map(str, p1)), "/".join(map(str, p2))),
                        json.dumps(reorder(doc, {p1: list(o1.keys())[::-1], p2: list(o2.keys())[::-1]}))))
    capped = len(out) > cap
    return canon_text, out[:cap], capped


def audit():
    sites = []
    for crate in ("typify-impl", "typify-macro", "cargo-typify"):
        base = os.path.join(REPO, crate, "src")
        for root, _, files in os.walk(base):
            for fn in sorted(files):
                if not fn.endswith(".rs") or fn in ("test_util.rs",):
                    continue
                text = open(os.path.join(root, fn), encoding="utf-8", errors="replace").read()
                cut = text.find("#[cfg(test)]")
                body = text if cut < 0 else text[:cut]
                for i, line in enumerate(body.split("\n"), 1):
                    if re.search(r"\bHash(Map|Set)\b", line) and not line.strip().startswith("//"):
                        sites.append("%s/src/%s:%d: %s" % (crate, os.path.relpath(os.path.join(root, fn), base), i, line.strip()[:100]))
    return sites


def execute(cases_, tier, seed):
    res = Result()
    ensure_libgr()
    res.rule = ("one case = one (document, settings); each is converted from every key-order/whitespace variant of its text and in fresh processes under "
                "each hash seed; non-trivial = document whose conversion breaks a reference cycle or builds an enum/struct with >=2 members; distinct by document")
    k = 1 if tier == "quick" else 2
    nseeds = 8 if tier == "quick" else 32
    cap = 400 if tier == "quick" else 3000
    # 1+2: text variants and repeated rendering, one process family (unseeded)
    jobs = []
    meta = {}
    n_capped = 0
    for c in cases_:
        canon_text, variants, capped = text_variants(c["doc"], k, cap)
        n_capped += capped
        jobs.append({"id": c["key"] + "|base", "settings": c["settings"], "ops": [{"root_text": canon_text}], "want": ["tokens"]})
        for i, (label, text) in enumerate(variants):
            jid = "%s|v%d" % (c["key"], i)
            meta[jid] = label
            jobs.append({"id": jid, "settings": c["settings"], "ops": [{"root_text": text}], "want": ["tokens"]})
    # legs 1 and 2 run under one fixed hash seed so that a difference is attributable to the input text alone
    ans = adapter.run_jobs(jobs, env=dict(os.environ, LD_PRELOAD=LIBGR, VERIF_HASH_SEED="0"))
    base_tokens = {}
    n_variants = 0
    for c in cases_:
        b = ans[c["key"] + "|base"]
        res.states += 1
        res.transitions += 1
        feats = {"id": c["id"].split(":")[0] if c["id"].startswith(("graph", "diamond")) else c["id"]}
        op = (b.get("ops") or [{}])[0]
        tok = b.get("tokens") if op.get("status") == "ok" else "<%s:%s>" % (op.get("status"), op.get("msg"))
        base_tokens[c["key"]] = tok
        if "box" in (tok or "") or (tok or "").count("pub enum") + (tok or "").count("pub struct") > 2:
            res.nontrivial += 1
        if op.get("status") == "ok" and (b.get("render") or {}).get("stable") is False:
            res.violations.append(Violation(c["key"], "unstable-rendering", "%s: to_stream() returned different tokens on a second call" % c["id"], c,
                                            expected="identical", observed="differs", features=feats))
    for jid, label in meta.items():
        key = jid.split("|")[0]
        a = ans[jid]
        n_variants += 1
        res.transitions += 1
        op = (a.get("ops") or [{}])[0]
        tok = a.get("tokens") if op.get("status") == "ok" else "<%s:%s>" % (op.get("status"), op.get("msg"))
        if tok != base_tokens[key]:
            c = next(x for x in cases_ if x["key"] == key)
            res.violations.append(Violation(key, "input-encoding", "%s: output differs for variant %s of the same document" % (c["id"], label), c,
                                            expected="byte-identical output", observed={"variant": label, "first_difference": _first_diff(base_tokens[key], tok)},
                                            features={"id": c["id"], "variant_kind": label.split("@")[0]}, items=[label]))
    # 3: hash seeds in fresh processes
    n_seed_runs = 0
    seed_tokens = {}
    for s in range(nseeds):
        env = dict(os.environ, LD_PRELOAD=LIBGR, VERIF_HASH_SEED=str(s))
        sj = [{"id": c["key"], "settings": c["settings"], "ops": [{"root": c["doc"]}], "want": ["tokens"]} for c in cases_]
        sa = adapter.run_jobs(sj, env=env)
        for c in cases_:
            a = sa[c["key"]]
            op = (a.get("ops") or [{}])[0]
            tok = a.get("tokens") if op.get("status") == "ok" else "<%s:%s>" % (op.get("status"), op.get("msg"))
            seed_tokens.setdefault(c["key"], {})[s] = tok
            n_seed_runs += 1
            res.transitions += 1
    for c in cases_:
        toks = seed_tokens[c["key"]]
        distinct = {}
        for s, t in toks.items():
            distinct.setdefault(t, []).append(s)
        if len(distinct) > 1:
            groups = sorted(distinct.values(), key=lambda g: g[0])
            a, b = groups[0][0], groups[1][0]
            res.violations.append(Violation(c["key"], "hash-seed", "%s: output differs between hash seeds %d and %d (%d distinct outputs over %d seeds)" % (
                c["id"], a, b, len(distinct), nseeds), c, expected="byte-identical output in every fresh process",
                observed={"seeds": [a, b], "first_difference": _first_diff(toks[a], toks[b])}, features={"id": c["id"].split(":")[0]}, items=[[a, b]]))
        elif base_tokens[c["key"]] != next(iter(distinct)):
            res.violations.append(Violation(c["key"], "hash-seed", "%s: seeded process output differs from the unseeded one" % c["id"], c, expected="identical",
                                            observed=_first_diff(base_tokens[c["key"]], next(iter(distinct))), features={"id": c["id"].split(":")[0]}))
    # 4: process history. The output is a function of settings and schema, not of what the process converted before: every document is converted
    # in ONE adapter process (single thread) that works through the whole list, once in list order and once in reverse order, so each document is
    # preceded by the documents before it in one run and by the documents after it in the other; both must equal the base output.
    n_hist = 0
    if len(cases_) > 1:
        env0 = dict(os.environ, LD_PRELOAD=LIBGR, VERIF_HASH_SEED="0")
        orders = (("list-order", list(cases_)), ("reverse-order", list(cases_[::-1])))
        from concurrent.futures import ThreadPoolExecutor as _TPE
        with _TPE(max_workers=2) as ex:
            hres = list(ex.map(lambda o: adapter._run_chunk([{"id": "%s|r%d" % (c["key"], r), "settings": c["settings"], "ops": [{"root": c["doc"]}], "want": ["tokens"]}
                                                             for r in range(HIST_REPEAT) for c in o[1]], env0), orders))
        for (label, order), ha in zip(orders, hres):
          for r in range(HIST_REPEAT):
            for pos, c in enumerate(order):
                  pos += r * len(order)
                  a = ha.get("%s|r%d" % (c["key"], r)) or {}
                  op = (a.get("ops") or [{}])[0]
                  tok = a.get("tokens") if op.get("status") == "ok" else "<%s:%s>" % (op.get("status"), op.get("msg"))
                  n_hist += 1
                  res.transitions += 1
                  if a.get("abort") and not (ans[c["key"] + "|base"]).get("abort"):
                      continue   # an abort ends the process; the remainder runs in a fresh one (the history restarts), which is still a history
                  if tok != base_tokens[c["key"]]:
                      res.violations.append(Violation(c["key"], "process-history", "%s: output differs when the document is converted as number %d of one process (%s) from its output in another process"
                                                      % (c["id"], pos + 1, label), c, expected="byte-identical output whatever the process converted before",
                                                      observed={"order": label, "position": pos + 1, "first_difference": _first_diff(base_tokens[c["key"]], tok)},
                                                      features={"id": c["id"].split(":")[0]}, items=[label]))
    # 3b: the front-ends in fresh processes under hash seeds: the real cargo-typify binary, and rustc expanding the real macro
    # (its MacroSettings maps and the impls HashSet are filled by serde_tokenstream in hash order)
    n_fe = 0
    if len(cases_) > 1:
        from . import C15
        exe = C15.build_cli()
        fe_seeds = 2 if tier == "quick" else 8
        feats = C15.features("xrt")
        fc = []
        for combo in (("crate_digit", "crate_rename", "derive_pe_eq"), ("crate_digit_rename", "crate_ver", "map_btree"), ("patch", "replace_FrDiDe", "convert"),
                      ("replace_none", "derive_path", "crate_any")):
            c = {"schema": "xrt", "doc": C15.XRT, "features": list(combo), "builder": True}
            c["id"] = "frontends:xrt{%s}" % ",".join(combo)
            c["key"] = key_of(["C12fe", c["id"]])
            fc.append(c)
        fj = [{"id": c["key"], "settings": C15.merge_settings([{"struct_builder": True}] + [feats[fn][0] for fn in c["features"]]), "ops": [{"root": c["doc"]}],
               "want": ["tokens"]} for c in fc]
        fa = adapter.run_jobs(fj)
        btok = {c["key"]: fa[c["key"]]["tokens"] for c in fc}
        workdir = os.path.join(WORK, "c12_tmp")
        os.makedirs(workdir, exist_ok=True)
        outs = {}
        for sd in range(fe_seeds):
            env = {"LD_PRELOAD": LIBGR, "VERIF_HASH_SEED": str(sd)}
            rc, text, err = C15.expand_macro(fc, {"xrt": feats}, btok, "c12seed", extra_env=env)
            if rc != 0:
                raise MachineryError("macro expansion under hash seed %d failed:\n%s" % (sd, err[-1500:]))
            outs.setdefault("macro", {})[sd] = re.sub(r"// env .*", "", text)
            n_fe += 1
            old_env = dict(os.environ)
            os.environ.update(env)
            try:
                for c in fc:
                    if all(feats[fn][1] is not None for fn in c["features"]):
                        r = C15.run_cli(exe, c, feats, workdir)
                        outs.setdefault("cli:" + c["id"], {})[sd] = (r[0], r[1])
                        n_fe += 1
            finally:
                os.environ.clear()
                os.environ.update(old_env)
        import shutil
        shutil.rmtree(workdir, ignore_errors=True)
        for what, per in outs.items():
            res.transitions += len(per)
            vals = {}
            for sd, v in per.items():
                vals.setdefault(json.dumps(v), []).append(sd)
            if len(vals) > 1:
                g = sorted(vals.values())
                k = key_of(["C12fe", what])
                res.violations.append(Violation(k, "hash-seed:front-end", "%s: output differs between hash seeds %d and %d" % (what, g[0][0], g[1][0]),
                                                {"key": k, "family": "front-ends", "what": what}, expected="byte-identical output in every fresh process",
                                                observed={"seeds": [g[0][0], g[1][0]]}, features={"id": what.split(":")[0]}))
    sites = audit()
    res.evaluations = res.transitions
    res.extra.update({"process_history_runs": n_hist, "text_variants": n_variants, "documents_with_capped_variants": n_capped, "hash_seed_runs": n_seed_runs, "hash_seeds": nseeds, "front_end_seed_runs": n_fe,
                      "hash_seed_leg": "seed enumeration, not exhaustive over the key space; excluded from the exhaustive claim",
                      "hash_collection_sites_audit": sites})
    res.samples = [{"id": c["id"], "doc": c["doc"]} for c in cases_[:: max(1, len(cases_) // 4)]][:4]
    res.bound = "tier=%s: %d documents; key orders at <=%d object nodes (all permutations for <=4 keys) + 3 whitespace styles (cap %d variants/document); %d hash seeds; every document also as part of one process over the whole list in 2 orders, 6 passes each" % (
        tier, len(cases_), k, cap, nseeds)
    res.assumptions = ["std's RandomState takes its keys from getrandom(), interposed by LD_PRELOAD (verified at setup by a two-seed self-test)",
                       "schemars / serde_json are built without preserve_order, so parsed objects are BTreeMaps"]
    if n_capped:
        res.exhaustive = False
    if not res.violations and (len(cases_) > 20 and (n_variants < 500 or n_seed_runs < 500)):   # a subject that breaks everything is reported through its violations, not as vacuity
        raise MachineryError("vacuity guard: variants=%d seed runs=%d" % (n_variants, n_seed_runs))
    return res


def _first_diff(a, b):
    a, b = a or "", b or ""
    i = 0
    while i < min(len(a), len(b)) and a[i] == b[i]:
        i += 1
    return {"at": i, "a": a[max(0, i - 60): i + 80], "b": b[max(0, i - 60): i + 80]}
