"""C08 — arbitrary JSON names map to valid identifiers and exact wire names.
Space: every string of length <=3 (quick) / <=4 (thorough) over a 13-character alphabet (XID_Start ASCII and
non-ASCII, XID_Continue-only digit and combining mark, '_', '-', ''', space, '$', '+', case-mapping changers), the Rust
keyword list in three casings and sanitize's special cases; each used as a lone member name, a lone enum value and a
definition key; then every pair that the implementation itself maps to one identifier (collision classes are discovered
through the adapter), as members / variants / definitions. Compile tier: round trip on the wire under the exact name.
Oracle: add fails (allowed), or: output parses, identifiers distinct per scope, effective wire name == the JSON name."""
import itertools
import json

from .. import adapter, batch
from ..common import MachineryError, key_of
from ..runner import Result, Violation

ALPHA = ["a", "B", "é", "1", "_", "-", "'", " ", "$", "+", "́", "ß", "İ"]
KEYWORDS = ("as break const continue crate else enum extern false fn for if impl in let loop match mod move mut pub ref return self Self static "
            "struct super trait true type unsafe use where while async await dyn abstract become box do final macro override priv typeof "
            "unsized virtual yield try gen union macro_rules raw safe").split()
SPECIAL = ["+1", "-1", "async", "", "x", "X", "_", "__", "r#type", "'static", "Option", "String", "Vec", "Box", "Result", "Default", "Ok", "Err", "None", "Some"]


def names(tier):
    out = [""]
    maxlen = 3 if tier == "quick" else 4
    for n in range(1, maxlen + 1):
        for tup in itertools.product(ALPHA, repeat=n):
            out.append("".join(tup))
    for kw in KEYWORDS:
        out += [kw, kw.capitalize(), kw.upper()]
    out += SPECIAL
    seen, res = set(), []
    for s in out:
        if s not in seen:
            seen.add(s)
            res.append(s)
    return res


INT = {"type": "integer"}
USES = ("member", "variant", "def", "member_reqonly", "member_flat", "ext_variant", "int_variant", "ext_variant_t1", "ext_variant_t2", "ext_variant_struct", "adj_variant", "int_variant_extra")
PAIR_USES = {"member": ("member", "member_mixed", "member_reqonly", "vmember_ext", "vmember_int", "vmember_unt", "vmember_adj"), "variant": ("variant",), "def": ("def", "def_alias", "def_mixed", "def_mixed_rev"), "member_flat": ("member_flat",),
             "ext_variant": ("ext_variant",), "int_variant": ("int_variant",), "member_reqonly": (),
             "ext_variant_t1": ("ext_variant_t1",), "ext_variant_t2": (), "ext_variant_struct": (), "adj_variant": ("adj_variant",), "int_variant_extra": ()}


def doc_for(use, ns):
    """-> (document, wire names the struct / enum T must expose)"""
    ns = list(ns)
    if use == "member":
        return {"definitions": {"T": {"type": "object", "properties": {n: INT for n in ns}, "required": ns}}}, ns
    if use == "member_reqonly":
        # names that occur only in `required` (no schema under `properties`) still become members
        return {"definitions": {"T": {"type": "object", "properties": {"zz9": INT}, "required": ns}}}, ns + ["zz9"]
    if use == "member_mixed":
        # first name declared, the others only required
        return {"definitions": {"T": {"type": "object", "properties": {ns[0]: INT}, "required": ns}}}, ns
    if use == "member_flat":
        # next to a flattened additional-properties member (which typify names `extra`, `extra_`, ...)
        return {"definitions": {"T": {"type": "object", "properties": {n: INT for n in ns[:1]}, "required": ns, "additionalProperties": {"type": "string"}}}}, ns
    if use.startswith("vmember_"):
        # the names are members of a STRUCT VARIANT of an enum (externally / internally / adjacently tagged, untagged)
        body = {"type": "object", "properties": {n: INT for n in ns}, "required": ns}
        if use == "vmember_ext":
            subs = [{"type": "object", "properties": {"V": body}, "required": ["V"], "additionalProperties": False}, {"type": "string", "enum": ["U"]}]
        elif use == "vmember_int":
            b2 = {"type": "object", "properties": dict(body["properties"], tag9={"type": "string", "enum": ["V"]}), "required": ns + ["tag9"]}
            subs = [b2, {"type": "object", "properties": {"tag9": {"type": "string", "enum": ["U"]}}, "required": ["tag9"]}]
        elif use == "vmember_adj":
            subs = [{"type": "object", "properties": {"tag9": {"type": "string", "enum": ["V"]}, "c9": body}, "required": ["tag9", "c9"]},
                    {"type": "object", "properties": {"tag9": {"type": "string", "enum": ["U"]}}, "required": ["tag9"]}]
        else:
            subs = [dict(body, additionalProperties=False), {"type": "integer"}]
        return {"definitions": {"T": {"oneOf": subs}}}, ns
    if use == "variant":
        return {"definitions": {"T": {"type": "string", "enum": ns}}}, ns
    if use == "ext_variant":
        subs = [{"type": "object", "properties": {n: INT}, "required": [n], "additionalProperties": False} for n in ns]
        subs.append({"type": "object", "properties": {"zz9": {"type": "boolean"}}, "required": ["zz9"], "additionalProperties": False})
        return {"definitions": {"T": {"oneOf": subs}}}, ns + ["zz9"]
    if use in ("ext_variant_t1", "ext_variant_t2", "ext_variant_struct"):
        # the variant's payload kind decides which template writes the variant (and its serde attributes)
        pay = {"ext_variant_t1": {"type": "array", "items": [INT], "minItems": 1, "maxItems": 1},
               "ext_variant_t2": {"type": "array", "items": [INT, {"type": "string"}], "minItems": 2, "maxItems": 2},
               "ext_variant_struct": {"type": "object", "properties": {"x": INT}, "required": ["x"]}}[use]
        subs = [{"type": "object", "properties": {n: pay}, "required": [n], "additionalProperties": False} for n in ns]
        subs.append({"type": "object", "properties": {"zz9": {"type": "boolean"}}, "required": ["zz9"], "additionalProperties": False})
        return {"definitions": {"T": {"oneOf": subs}}}, ns + ["zz9"]
    if use == "adj_variant":
        subs = [{"type": "object", "properties": {"tag9": {"type": "string", "enum": [n]}, "c9": [INT, {"type": "string"}][i % 2]}, "required": ["tag9", "c9"]} for i, n in enumerate(ns)]
        subs.append({"type": "object", "properties": {"tag9": {"type": "string", "enum": ["zz9"]}, "c9": {"type": "boolean"}}, "required": ["tag9", "c9"]})
        return {"definitions": {"T": {"oneOf": subs}}}, ns + ["zz9"]
    if use == "int_variant_extra":
        # every variant carries a SECOND required single-valued string property that sorts before the tag and whose value differs from the tag value
        subs = [{"type": "object", "properties": {"tag9": {"type": "string", "enum": [n]}, "aa%d" % i: {"type": "string", "enum": ["other%d" % i]}, "v%d" % i: INT}, "required": ["tag9", "aa%d" % i]}
                for i, n in enumerate(ns)]
        subs.append({"type": "object", "properties": {"tag9": {"type": "string", "enum": ["zz9"]}}, "required": ["tag9"]})
        return {"definitions": {"T": {"oneOf": subs}}}, ns + ["zz9"]
    if use == "int_variant":
        subs = [{"type": "object", "properties": {"tag9": {"type": "string", "enum": [n]}, "v%d" % i: INT}, "required": ["tag9"]} for i, n in enumerate(ns)]
        subs.append({"type": "object", "properties": {"tag9": {"type": "string", "enum": ["zz9"]}}, "required": ["tag9"]})
        return {"definitions": {"T": {"oneOf": subs}}}, ns + ["zz9"]
    if use == "def":
        return {"definitions": {n: {"type": "object", "properties": {"x": INT}} for n in ns}}, ns
    if use in ("def_alias", "def_mixed", "def_mixed_rev"):
        # definitions that get their name through the newtype wrapper (plain string, array, $ref ...) rather than from a struct / enum of their own
        kinds = {"def_alias": [{"type": "string"}, {"type": "array", "items": INT}, {"$ref": "#/definitions/zz9"}],
                 "def_mixed": [{"type": "object", "properties": {"x": INT}}, {"type": "string"}, {"type": ["integer", "null"]}],
                 "def_mixed_rev": [{"type": "integer"}, {"type": "object", "properties": {"x": INT}}, {"type": "string", "enum": ["a", "b"]}]}[use]
        defs = {n: kinds[i % len(kinds)] for i, n in enumerate(ns)}
        if use == "def_alias":
            defs["zz9"] = {"type": "object", "properties": {"x": INT}}
            return {"definitions": defs}, ns + ["zz9"]
        return {"definitions": defs}, ns
    raise ValueError(use)


def mk(use, ns):
    doc, wires = doc_for(use, ns)
    c = {"use": use, "names": list(ns), "doc": doc, "wires": wires}
    c["key"] = key_of(["C08", use, list(ns)])
    return c


def cases(tier, seed):
    # singles only; pairs are discovered from the implementation's own answers inside execute()
    out = [mk(use, [s]) for s in names(tier) for use in ("member", "variant", "def")]
    # the other places a JSON name becomes an identifier: shorter strings (the sanitiser is shared, the surrounding code is not)
    short = [s for s in names(tier) if len(s) <= (2 if tier == "quick" else 3) or s in KEYWORDS or s in SPECIAL] + ["extra", "extra_", "Extra", "tag9", "zz9"]
    seen = set()
    for s in short:
        if s in seen or s == "zz9":
            continue
        seen.add(s)
        for use in ("member_reqonly", "member_flat", "ext_variant", "int_variant", "ext_variant_t1", "ext_variant_t2", "ext_variant_struct", "adj_variant", "int_variant_extra"):
            if use == "int_variant" and s == "":
                pass
            out.append(mk(use, [s]))
    # triples: a pair that collides on the first pass and that the fallback separates, plus a third value that literally IS a fallback name
    for tri in (["a_b", "a__b", "AXb"], ["a-b", "a--b", "AXXb"], ["a_b", "a__b", "AB"], ["x_y", "x-y", "XXy", "XY"], ["A_b", "aB", "AXb"]):
        out.append(mk("variant", tri))
        out.append(mk("member", tri))
    return out


def _root_items(a):
    return (a.get("scan") or {}).get("mods", {}).get("", [])


def wire_name(ident, attrs):
    for s in attrs.get("serde", []):
        if s["key"] == "rename" and isinstance(s["value"], str):
            return s["value"]
    return ident[2:] if ident.startswith("r#") else ident


def observe(c, a):
    """-> (status, idents {name->ident}, problems)"""
    op = (a.get("ops") or [{}])[0]
    if a.get("abort"):
        return "abort", {}, ["process abort"]
    if op.get("status") in ("err", "panic"):
        return "failed:" + op["status"], {}, []
    if (a.get("render") or {}).get("status") != "ok":
        return "render-panic", {}, ["to_stream panicked after a successful add: %s" % (a.get("render") or {}).get("msg")]
    if not a.get("syn_ok"):
        return "unparsable", {}, ["output does not parse: %s" % a.get("syn_err")]
    items = _root_items(a)
    probs = []
    idents = {}
    if c["use"].startswith("member"):
        st = [it for it in items if it.get("kind") == "struct" and it["name"] == "T"]
        if not st:
            return "ok", {}, ["struct T not found"]
        fields = st[0]["body"]["fields"]
        fn = [f["name"] for f in fields]
        # the flattened additional-properties member has no wire name of its own (its identifier must still be distinct)
        fields = [f for f in fields if not any(x["key"] == "flatten" for x in f["attrs"].get("serde", []))]
        if len(set(fn)) != len(fn):
            probs.append("duplicate field identifiers %s" % fn)
        wires = [wire_name(f["name"], f["attrs"]) for f in fields]
        if sorted(wires) != sorted(c["wires"]):
            probs.append("wire names %r != JSON names %r" % (sorted(wires), sorted(c["wires"])))
        for f, w in zip(fields, wires):
            idents[w] = f["name"]
    elif c["use"].startswith("vmember_"):
        en = [it for it in items if it.get("kind") == "enum" and it["name"] == "T"]
        if not en:
            return "ok", {}, ["enum T not found"]
        sv = [v for v in en[0]["variants"] if v["body"]["style"] == "named"]
        if len(sv) != 1:
            return "ok", {}, ["expected one struct variant, found %d" % len(sv)]
        fields = sv[0]["body"]["fields"]
        fn = [f["name"] for f in fields]
        if len(set(fn)) != len(fn):
            probs.append("duplicate field identifiers %s in the struct variant" % fn)
        wires = [wire_name(f["name"], f["attrs"]) for f in fields]
        if sorted(wires) != sorted(c["wires"]):
            probs.append("wire names %r != JSON names %r" % (sorted(wires), sorted(c["wires"])))
        for f, w in zip(fields, wires):
            idents[w] = f["name"]
    elif "variant" in c["use"]:
        en = [it for it in items if it.get("kind") == "enum" and it["name"] == "T"]
        if not en:
            return "ok", {}, ["enum T not found"]
        vs = en[0]["variants"]
        vn = [v["name"] for v in vs]
        if len(set(vn)) != len(vn):
            probs.append("duplicate variant identifiers %s" % vn)
        wires = [wire_name(v["name"], v["attrs"]) for v in vs]
        if sorted(wires) != sorted(c["wires"]):
            probs.append("wire names %r != JSON values %r" % (sorted(wires), sorted(c["wires"])))
        for v, w in zip(vs, wires):
            idents[w] = v["name"]
    else:
        named = [it["name"] for it in items if it.get("kind") in ("struct", "enum")]
        if len(set(named)) != len(named):
            probs.append("duplicate type identifiers %s" % sorted(named))
        if len(named) != len(c["wires"]):
            probs.append("%d definitions produced %d types" % (len(c["wires"]), len(named)))
        loc = a.get("locate") or {}
        for n in c["names"]:
            if "ident" in (loc.get(n) or {}):
                idents[n] = loc[n]["ident"]
    return "ok", idents, probs


def run_cases(cs):
    jobs = []
    for c in cs:
        j = {"id": c["key"], "settings": {}, "ops": [{"root": c["doc"]}], "want": ["scan"]}
        if c["use"].startswith("def"):
            j["locate"] = c["names"]
        jobs.append(j)
    return adapter.run_jobs(jobs)


def judge(c, a, res, status_hist):
    status, idents, probs = observe(c, a)
    status_hist[status] = status_hist.get(status, 0) + 1
    res.transitions += 1
    if probs:
        mode = "collision" if any("duplicate" in p for p in probs) else ("wire-name" if any("wire" in p for p in probs) else status)
        res.violations.append(Violation(c["key"], mode + ":" + c["use"], "%s %r: %s" % (c["use"], c["names"], "; ".join(probs)), c,
                                        expected="fails, or valid distinct identifiers bound to the exact JSON names", observed={"status": status, "problems": probs},
                                        features={"use": c["use"], "n": len(c["names"])}, items=[c["names"]]))
    return status, idents


def execute(cases_, tier, seed):
    res = Result()
    res.rule = ("one case = one name (or one colliding pair) used as member / enum value / definition key, ingested by the real typify-impl; "
                "non-trivial = name whose identifier differs from the name itself (sanitisation did something) or a colliding pair")
    ans = run_cases(cases_)
    hist = {}
    classes = {u: {} for u in USES}
    single_ok = {}
    for c in cases_:
        status, idents = judge(c, ans[c["key"]], res, hist)
        res.states += 1
        if len(c["names"]) == 1 and status == "ok":
            n = c["names"][0]
            ident = idents.get(n)
            single_ok[(c["use"], n)] = ident
            if ident is not None:
                classes[c["use"]].setdefault(ident, []).append(n)
                if ident != n:
                    res.nontrivial += 1
    is_replay = len(cases_) == 1
    n_pairs = 0
    pair_cases = []
    if not is_replay:
        cap = 1500 if tier == "quick" else 12000
        for use in USES:
            allp = []
            for ident, ns in classes[use].items():
                ns = sorted(ns, key=lambda s: (len(s), s))
                for s, t in itertools.combinations(ns, 2):
                    allp.append((len(s) + len(t), s, t))
            allp.sort()
            puses = PAIR_USES[use]
            for _, s, t in allp[:(cap // 3 if use in ("member", "variant", "def") else cap // 10)]:
                for pu in puses:
                    pair_cases.append(mk(pu, [s, t]))
                    if pu == "member_mixed":
                        pair_cases.append(mk(pu, [t, s]))
        # names whose identifier meets the one typify gives the flattened member
        for n in sorted(set(classes["member"].get("extra", []) + classes["member"].get("extra_", []))):
            pair_cases.append(mk("member_flat", [n]))
            pair_cases.append(mk("member_flat", ["zz8", n]))
        pa = run_cases(pair_cases)
        for c in pair_cases:
            judge(c, pa[c["key"]], res, hist)
            res.states += 1
            res.nontrivial += 1
            n_pairs += 1
    # compile tier: exact wire name when deserialising and serialising
    comp = []
    if not is_replay:
        short = [c for c in cases_ if c["use"] in ("member", "variant") and (len(c["names"][0]) <= (1 if tier == "quick" else 2) or c["names"][0] in KEYWORDS)]
        if tier == "quick":
            short = [c for c in short if len(c["names"][0]) <= 1 or c["names"][0] in KEYWORDS[:40]]
        comp = [c for c in short if single_ok.get((c["use"], c["names"][0])) is not None]
        comp += [c for c in pair_cases if c["use"] in ("member", "variant")][: 40 if tier == "quick" else 600]
    else:
        comp = [c for c in cases_ if c["use"] in ("member", "variant")]
    n_comp = 0
    if comp:
        jobs = [{"id": c["key"], "settings": {}, "ops": [{"root": c["doc"]}], "want": ["pretty"]} for c in comp]
        ca = adapter.run_jobs(jobs)
        bc = [batch.Case(c["key"], ca[c["key"]]["pretty"], {"T": ["de"]}) for c in comp if "pretty" in ca[c["key"]]]
        if bc:
            b = batch.Batch("c08_" + tier, bc)
            cr = b.compile()
            probes, idx = [], []
            for c in comp:
                if c["key"] not in cr:
                    continue
                if not cr[c["key"]]["ok"]:
                    # uncompilable output for a name (pair) the add accepted: identifiers are not valid/distinct
                    if not any(v.key == c["key"] for v in res.violations):
                        res.violations.append(Violation(c["key"], "compile:" + c["use"], "%s %r: generated code does not compile: %s" % (c["use"], c["names"], cr[c["key"]]["errors"][0]["msg"]),
                                                        c, expected="compiles", observed=cr[c["key"]]["errors"][:4], features={"use": c["use"], "n": len(c["names"])},
                                                        items=[c["names"]]))
                    continue
                if c["use"] == "member":
                    inst = {n: i + 1 for i, n in enumerate(c["names"])}
                    probes.append((c["key"], "T", "de", json.dumps(inst)))
                    idx.append((c, inst))
                else:
                    for n in c["names"]:
                        probes.append((c["key"], "T", "de", json.dumps(n)))
                        idx.append((c, n))
            out = b.run(probes)
            for (c, inst), r in zip(idx, out):
                n_comp += 1
                res.transitions += 1
                w = ((r or {}).get("w") or {}).get("v")
                if not (r or {}).get("ok") or w != inst:
                    res.violations.append(Violation(c["key"], "wire-roundtrip:" + c["use"], "%s %r: %r -> %r" % (c["use"], c["names"], inst, r), c,
                                                    expected=inst, observed=r, features={"use": c["use"], "n": len(c["names"])}, items=[c["names"]]))
            b.cleanup()
    res.evaluations = res.transitions
    res.extra.update({"status_histogram": hist, "collision_pairs_explored": n_pairs, "compiled_wire_probes": n_comp,
                      "collision_classes": {u: sum(1 for v in classes[u].values() if len(v) > 1) for u in classes}})
    res.samples = [c["names"] for c in cases_[:: max(1, len(cases_) // 6)]][:6]
    res.bound = "tier=%s: all strings of length <=%d over a 13-character alphabet + %d keywords x 3 casings + specials, x 3 uses; colliding pairs up to the cap (smallest first)" % (
        tier, 3 if tier == "quick" else 4, len(KEYWORDS))
    res.assumptions = ["a failing add (Err or panic) is accepted by the statement and only counted", "random longer Unicode strings are not sampled"]
    if not res.violations and (not is_replay and (hist.get("ok", 0) < 100 or n_pairs < 10)):   # a subject that breaks everything is reported through its violations, not as vacuity
        raise MachineryError("vacuity guard: ok=%d pairs=%d" % (hist.get("ok", 0), n_pairs))
    return res
