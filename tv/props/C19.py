"""C19 — every generated type is public and carries the promised trait surface.
Space: every named type of the depth-2 space (+ pairs, thorough) x settings {builder off/on, derives none/[PartialEq]}
plus the shapes the 'why' names (never type, float payloads, tuple variants, float newtype, custom map).
Obs: syn scan (visibility of items and fields) and compiled bound assertions, one per type, in the case's own file.
The negative half (traits never on a type that cannot derive them) is the compile verdict of the module."""
from .. import wire
from ..common import MachineryError
from ..menus import shapes
from ..runner import Result, Violation

BASE = "::std::fmt::Debug + ::std::clone::Clone + ::serde::Serialize + ::serde::de::DeserializeOwned + for<'a> ::std::convert::From<&'a T>"
ORDER = " + ::std::marker::Copy + ::std::cmp::Eq + ::std::cmp::Ord + ::std::hash::Hash + ::std::cmp::PartialOrd + ::std::cmp::PartialEq"
STRNEW = " + ::std::cmp::Eq + ::std::cmp::Ord + ::std::hash::Hash"
OVERLAP = {"struct_builder": False, "derives": ["PartialEq", "Clone", "Debug"]}   # derives the user asks for that typify also adds by itself
SETTINGS = [{"struct_builder": False}, {"struct_builder": True}, {"struct_builder": False, "derives": ["PartialEq"]},
            {"struct_builder": True, "derives": ["PartialEq"], "map_type": "::verif_support::ext::VMap"}]


def cases(tier, seed):
    base = shapes.space_depth2(tier, contexts=["def", "member_opt", "ext_payload"] if tier == "quick" else None)
    if tier != "quick":
        base += shapes.pairs(tier)
    out = []
    sets = SETTINGS[:2] if tier == "quick" else SETTINGS
    for p in base:
        for i, st in enumerate(sets if p.get("ctx") in ("def", "pair_struct", "pair_ext") or tier == "quick" else sets[:2]):
            q = dict(p)
            q["id"] = "%s#s%d" % (p["id"], i)
            q["settings"] = st
            out.append(q)
        if p.get("ctx") == "def":
            out.append(dict(p, id="%s#overlap" % p["id"], settings=OVERLAP))
    return out


def root_types(scan):
    return [it for it in (scan or {}).get("mods", {}).get("", []) if it.get("kind") in ("struct", "enum")]


def classify(it):
    if it["kind"] == "enum" and it["variants"] and all(v["body"]["style"] == "unit" for v in it["variants"]):
        return "dataless-enum"
    if it["kind"] == "struct" and it["body"]["style"] == "tuple" and len(it["body"]["fields"]) == 1 and \
            it["body"]["fields"][0]["ty"].replace(" ", "") == "::std::string::String":   # a bare `String` can only be a GENERATED type of that name
        return "string-newtype"
    return "plain"


def decorate(wc, a):
    asserts = []
    for n, it in enumerate(root_types(a.get("scan"))):
        if it.get("generics"):
            continue
        cls = classify(it)
        bound = BASE + (ORDER if cls == "dataless-enum" else STRNEW if cls == "string-newtype" else "")
        asserts.append("const _: fn() = || { fn verif_assert_%d<T: %s>() {} verif_assert_%d::<%s>(); }; // %s %s" % (n, bound, n, it["name"], cls, it["name"]))
    return {"asserts": asserts}


def execute(cases_, tier, seed):
    res = Result()
    wcs = wire.run(cases_, {}, "c19_" + tier if len(cases_) > 1 else "replay_c19", mode="check", keep_scan=True, decorate=decorate,
                   need_target=False, use_cache=len(cases_) > 1)
    res.rule = ("one case = one (schema document, settings); every struct/enum item of the root module gets one compiled bound assertion; "
                "non-trivial = case with >=1 data-less enum or string newtype (the extended trait set is demanded); distinct by (document, settings)")
    n_types = n_ext = 0
    for wc in wcs:
        res.states += 1
        res.transitions += 1
        if wc.compiled is None:
            continue
        feats = {"shape": wc.placed.get("shape"), "ctx": wc.placed.get("ctx"), "id": wc.id, "shape_kind": (wc.placed.get("shape") or "").split("(")[0]}
        types = root_types(wc.scan)
        ext = [it for it in types if classify(it) != "plain"]
        n_types += len(types)
        n_ext += len(ext)
        res.transitions += len(types)
        if ext:
            res.nontrivial += 1
        # visibility
        vis = []
        for it in types:
            if it["vis"] != "pub":
                vis.append("%s %s is %s" % (it["kind"], it["name"], it["vis"]))
            if it["kind"] == "struct" and it["body"]["style"] == "named":
                for f in it["body"]["fields"]:
                    if f["vis"] != "pub":
                        vis.append("field %s.%s is %s" % (it["name"], f["name"], f["vis"]))
            derives = [d.replace(" ", "") for d in it["attrs"]["derives"]]
            if it["kind"] == "struct" and it["body"]["style"] == "tuple" and "::serde::Deserialize" in derives:
                # unconstrained newtype: its field is public
                for f in it["body"]["fields"]:
                    if f["vis"] != "pub":
                        vis.append("unconstrained newtype %s has a %s field" % (it["name"], f["vis"]))
        if vis:
            res.violations.append(Violation(wc.key, "not-public", "%s: %s" % (wc.id, "; ".join(vis[:3])), wc.placed, expected="every generated type/member is pub",
                                            observed=vis, features=feats, items=vis))
        if not wc.compiled:
            a_errs = [e for e in wc.errors if e["where"] == "assert"]
            m_errs = [e for e in wc.errors if e["where"] != "assert"]
            if a_errs:
                res.violations.append(Violation(wc.key, "missing-trait", "%s: bound assertion fails: %s" % (wc.id, a_errs[0]["msg"]), wc.placed,
                                                expected="T: Debug + Clone + Serialize + DeserializeOwned + From<&T> (+ Copy/Eq/Ord/Hash where promised)",
                                                observed=a_errs[:5], features=feats, items=sorted({e["msg"][:120] for e in a_errs})))
            # only errors that arise inside the expansion of a #[derive(..)] the generated code carries (other type errors are C01's)
            # any error inside the expansion of a derive: the type does not get the trait it promises (e.g. a serde attribute that does not
            # fit the field type makes derive(Serialize) fail with E0308)
            # ... and errors located on an attribute line of a type (#[serde(default = "path")] naming a function that does not exist):
            # the derive that reads the attribute cannot produce the impl either
            derive_errs = [e for e in m_errs if e.get("derive") or (e.get("src") or "").startswith(("#[serde(", "#[derive(", "#[serde ("))]
            if derive_errs:
                res.violations.append(Violation(wc.key, "underivable-trait", "%s: a derived trait cannot be implemented: %s" % (wc.id, derive_errs[0]["msg"]), wc.placed,
                                                expected="traits never appear on a type that cannot derive them", observed=derive_errs[:5], features=feats,
                                                items=sorted({e["msg"][:120] for e in derive_errs})))
    res.evaluations = res.transitions
    res.extra.update({"types_asserted": n_types, "types_with_extended_trait_set": n_ext})
    res.samples = [{"id": wc.id, "settings": wc.settings, "doc": wc.placed["doc"]} for wc in wcs[:: max(1, len(wcs) // 4)]][:4]
    res.bound = "tier=%s: depth-2 space%s x %d settings" % (tier, "" if tier == "quick" else " + pairs", 2 if tier == "quick" else 4)
    res.assumptions = ["module compile errors other than E0204/E0277/E0369 are C01's business"]
    if not res.violations and (len(cases_) > 20 and (n_types < 200 or n_ext < 20)):   # a subject that breaks everything is reported through its violations, not as vacuity
        raise MachineryError("vacuity guard: types=%d extended=%d" % (n_types, n_ext))
    return res
