"""C15 — macro, cargo subcommand and builder generate the same types.
Space: schemas (example.json, an x-rust-type document, three depth-2 representatives) x option assignments expressible in
each front-end's syntax, deviation-bounded from 'no options' (k<=2; the CLI's small option set k<=3): derives, struct
builder, map type, unknown-crate policy, crate versions incl. names with digits / hyphens / underscores, `*`, `!`, renames;
for the macro also patch, replace (every subset of the three impls through the `: ?Display + Default` syntax) and convert.
Crate-specifier strings for the CLI: all token sequences of length <=4 over a 12-token alphabet, judged against a
reference grammar `[rename=]name@(semver|*|!)`.
Obs: (i) builder items from the adapter; (ii) the real cargo-typify binary built from /repo: exit status, stdout, files
created in a fresh directory; (iii) the real import_types! macro expanded by rustc (-Zunpretty=expanded) next to the
builder tokens in a sibling module.
Oracle: items equal token for token (up to the CLI's inner allow attributes and the macro's include_str anchor); output
path rules; nothing written on failure."""
import itertools
import json
import os
import re
import shutil
import subprocess
import tempfile
from concurrent.futures import ThreadPoolExecutor

from .. import adapter
from ..common import CARGO_ENV, ENGINE, NPROC, REPO, TOOLCHAIN, WORK, MachineryError, ensure_dir, key_of
from ..runner import Result, Violation

TARGET_REPO = os.path.join(WORK, "target-repo")
INT = {"type": "integer"}
STR = {"type": "string"}
XRT = {"definitions": {
    "Thing": {"type": "object", "properties": {"m": STR}, "x-rust-type": {"crate": "ext-crate", "version": "^1.2.0", "path": "ext_crate::sub::Thing"}},
    "Other2": {"type": "object", "properties": {"n": INT}, "x-rust-type": {"crate": "ext_crate2", "version": "0.3.1", "path": "ext_crate2::Other2"}},
    "Hh": {"type": "string", "x-rust-type": {"crate": "h2", "version": "*", "path": "h2::Hh"}},
    "User": {"type": "object", "properties": {"t": {"$ref": "#/definitions/Thing"}, "o": {"$ref": "#/definitions/Other2"}, "h": {"$ref": "#/definitions/Hh"}}, "required": ["t"]}}}
REP1 = {"definitions": {
    "Holder": {"type": "object", "properties": {"mp": {"type": "object", "additionalProperties": INT}, "id": {"type": "string", "format": "uuid"},
                                                 "d": {"type": "integer", "default": 7}, "f": {"type": "number"}}, "required": ["id"]},
    "Kind": {"type": "string", "enum": ["a", "b"]},
    "Either": {"oneOf": [{"$ref": "#/definitions/Kind"}, {"type": "integer"}]},
    "Tagged": {"oneOf": [{"type": "object", "properties": {"t": {"type": "string", "enum": ["A"]}, "x": INT, "y": STR}, "required": ["t", "x"]},
                         {"type": "object", "properties": {"t": {"type": "string", "enum": ["B"]}}, "required": ["t"]}]}}}
REP2 = {"title": "Rooted", "type": "object", "properties": {"inner": {"type": "object", "properties": {"s": {"type": "string", "maxLength": 3}}}},
        "definitions": {"Sm": {"type": "string", "pattern": "^[a-z]+$"}}}


class _Timeout:
    """stand-in for a CompletedProcess when the real cargo-typify binary does not return (reported as a failing run)"""
    def __init__(self, out, err):
        self.returncode, self.stdout, self.stderr = 124, out or b"", (err or b"") + b"\n[verif] cargo-typify killed: timeout"


def _run_cli(args, d):
    try:
        return subprocess.run(args, stdout=subprocess.PIPE, stderr=subprocess.PIPE, cwd=d, timeout=180)
    except subprocess.TimeoutExpired as te:
        return _Timeout(te.stdout, te.stderr)


def schemas(tier):
    ex = json.load(open(os.path.join(REPO, "example.json")))
    out = {"example": ex, "xrt": XRT}
    if tier != "quick":
        out.update({"rep1": REP1, "rep2": REP2})
    else:
        out.update({"rep1": REP1})
    return out


# option features: name -> (builder settings patch, cli args | None, macro fragment | None)
def features(schema_name):
    f = {
        "derive_pe": ({"derives": ["PartialEq"]}, ["--additional-derive", "PartialEq"], "derives = [PartialEq]"),
        "derive_pe_eq": ({"derives": ["PartialEq", "Eq"]}, ["-a", "PartialEq", "-a", "Eq"], "derives = [PartialEq, Eq]"),
        "derive_abs": ({"derives": ["::std::hash::Hash"]}, ["--additional-derive", "::std::hash::Hash"], "derives = [::std::hash::Hash]"),   # a GLOBAL path
        "derive_path": ({"derives": ["schemars::JsonSchema"]}, ["--additional-derive", "schemars::JsonSchema"], "derives = [schemars::JsonSchema]"),
        "map_btree": ({"map_type": "::std::collections::BTreeMap"}, ["--map-type", "::std::collections::BTreeMap"], 'map_type = "::std::collections::BTreeMap"'),
        # the same map types in the spellings users write: without the leading `::`
        "map_btree_rel": ({"map_type": "std::collections::BTreeMap"}, ["--map-type", "std::collections::BTreeMap"], 'map_type = "std::collections::BTreeMap"'),
        "map_vmap_rel": ({"map_type": "verif_support::ext::VMap"}, ["--map-type", "verif_support::ext::VMap"], 'map_type = "verif_support::ext::VMap"'),
        "map_vmap": ({"map_type": "::verif_support::ext::VMap"}, ["--map-type", "::verif_support::ext::VMap"], 'map_type = "::verif_support::ext::VMap"'),
        "unk_allow": ({"unknown_crates": "allow"}, ["--unknown-crates", "allow"], "unknown_crates = Allow"),
        "unk_deny": ({"unknown_crates": "deny"}, ["--unknown-crates", "deny"], "unknown_crates = Deny"),
        "unk_generate": ({"unknown_crates": "generate"}, ["--unknown-crates", "generate"], "unknown_crates = Generate"),
        "crate_ver": ({"crates": {"ext-crate": {"version": "1.2.5"}}}, ["--crate", "ext-crate@1.2.5"], 'crates = { "ext-crate" = "1.2.5" }'),
        "crate_ver_bad": ({"crates": {"ext-crate": {"version": "2.0.0"}}}, ["--crate", "ext-crate@2.0.0"], 'crates = { "ext-crate" = "2.0.0" }'),
        "crate_pre": ({"crates": {"ext-crate": {"version": "1.3.0-rc.1"}}}, ["--crate", "ext-crate@1.3.0-rc.1"], 'crates = { "ext-crate" = "1.3.0-rc.1" }'),
        "crate_build": ({"crates": {"ext-crate": {"version": "1.2.5+build.7"}}}, ["--crate", "ext-crate@1.2.5+build.7"], 'crates = { "ext-crate" = "1.2.5+build.7" }'),
        "crate_any": ({"crates": {"ext-crate": {"version": "*"}}}, ["--crate", "ext-crate@*"], 'crates = { "ext-crate" = "*" }'),
        "crate_never": ({"crates": {"ext-crate": {"version": "!"}}}, ["--crate", "ext-crate@!"], 'crates = { "ext-crate" = "!" }'),
        "crate_rename": ({"crates": {"ext-crate": {"version": "1.2.5", "rename": "my-ext"}}}, ["--crate", "my-ext=ext-crate@1.2.5"], 'crates = { "my-ext" = "ext-crate@1.2.5" }'),
        "crate_digit": ({"crates": {"ext_crate2": {"version": "0.3.1"}, "h2": {"version": "1.0.0"}}}, ["--crate", "ext_crate2@0.3.1", "--crate", "h2@1.0.0"],
                        'crates = { "ext_crate2" = "0.3.1", "h2" = "1.0.0" }'),
        "crate_digit_rename": ({"crates": {"h2": {"version": "1.0.0", "rename": "h3_x"}}}, ["--crate", "h3_x=h2@1.0.0"], 'crates = { "h3_x" = "h2@1.0.0" }'),
    }
    # macro-only features, aimed at definitions of the schema
    tgt = {"example": ("Fruit", "Veggie"), "xrt": ("User", "User"), "rep1": ("Kind", "Holder"), "rep2": ("Sm", "Rooted")}[schema_name]
    f["patch"] = ({"patch": {tgt[1]: {"rename": "Renamed", "derives": ["PartialEq"]}}}, None, 'patch = { %s = { rename = "Renamed", derives = [PartialEq] } }' % tgt[1])
    # the same multi-segment derive given globally and in a patch: both spellings must dedupe
    f["patch_abs"] = ({"patch": {tgt[1]: {"derives": ["::std::hash::Hash"]}}}, None, 'patch = { %s = { derives = [::std::hash::Hash] } }' % tgt[1])
    f["patch_path"] = ({"patch": {tgt[1]: {"derives": ["schemars::JsonSchema"]}}}, None, 'patch = { %s = { derives = [schemars::JsonSchema] } }' % tgt[1])
    for sub in itertools.chain.from_iterable(itertools.combinations(["FromStr", "Display", "Default"], r) for r in range(4)):
        mods = []
        if "FromStr" not in sub:
            mods.append("?FromStr")
        if "Display" not in sub:
            mods.append("?Display")
        if "Default" in sub:
            mods.append("Default")
        syntax = "crate::Ext" + (": " + " + ".join(mods) if mods else "")
        f["replace_" + ("".join(s[0:2] for s in sub) or "none")] = ({"replace": {tgt[0]: {"type": "crate::Ext", "impls": list(sub)}}}, None, "replace = { %s = %s }" % (tgt[0], syntax))
    f["convert"] = ({"convert": [{"schema": {"type": "string", "format": "uuid"}, "type": "crate::MyUuid", "impls": ["FromStr", "Display"]}]}, None,
                    'convert = { { type = "string", format = "uuid" } = crate::MyUuid }')
    return f


BUILDER_OFF = ({"struct_builder": False}, ["--no-builder"], None)
BUILDER_ON = ({"struct_builder": True}, ["--builder"], "struct_builder = true")


def merge_settings(parts):
    st = {}
    for p in parts:
        for k, v in p.items():
            if k == "crates":
                st.setdefault("crates", {}).update(v)
            elif k == "derives":
                st.setdefault("derives", [])
                st["derives"] += [d for d in v if d not in st["derives"]]
            else:
                st[k] = v
    return st


EXCLUSIVE = [("derive_abs", "derive_path"), ("patch_abs", "patch_path"), ("patch_abs", "patch"),
             ("derive_abs", "patch_path"), ("patch_abs", "derive_path"), ("derive_abs", "map_btree_rel"), ("patch_abs", "map_btree_rel"),   # schemars' own derive expands to relative std:: paths, which the shadow module of the global-path features would capture
              ("derive_pe", "derive_pe_eq"), ("map_btree", "map_vmap"), ("map_btree", "map_btree_rel"), ("map_btree", "map_vmap_rel"), ("map_vmap", "map_btree_rel"), ("map_vmap", "map_vmap_rel"),
             ("map_btree_rel", "map_vmap_rel"), ("unk_allow", "unk_deny"), ("unk_allow", "unk_generate"), ("unk_deny", "unk_generate")]


def compatible(combo):
    s = set(combo)
    if any(a in s and b in s for a, b in EXCLUSIVE):
        return False
    if sum(1 for c in combo if c.startswith("crate_") and c not in ("crate_digit", "crate_digit_rename")) > 1:
        return False
    if sum(1 for c in combo if c.startswith("replace_")) > 1:
        return False
    if "patch" in s and "patch_path" in s:
        return False
    if "crate_digit" in s and "crate_digit_rename" in s:
        return False
    return True


def cases(tier, seed):
    out = []
    for sname, doc in schemas(tier).items():
        feats = features(sname)
        names = sorted(feats)
        if sname != "xrt":
            names = [n for n in names if not n.startswith(("crate_", "unk_"))]
        kmax = 1 if tier == "quick" else 2
        combos = [()]
        for r in range(1, kmax + 1):
            combos += [c for c in itertools.combinations(names, r) if compatible(c)]
        if tier == "quick":
            combos += [c for c in (("derive_path", "patch_path"), ("derive_pe", "patch"), ("crate_rename", "unk_allow"), ("crate_digit", "crate_never")) if all(n in names for n in c)]
            # every way a crate can be configured x the two non-default policies for unnamed crates (the policy only matters for crates that
            # are NOT configured, and `!` is a configuration)
            combos += [c for c in itertools.product(("crate_ver", "crate_ver_bad", "crate_any", "crate_never", "crate_rename"), ("unk_allow", "unk_deny"))
                       if all(n in names for n in c) and c not in combos]
        if tier != "quick":
            cli_names = [n for n in names if feats[n][1] is not None]
            combos += [c for c in itertools.combinations(cli_names, 3) if compatible(c)][::3]
        for combo in combos:
            for builder in (False, True):
                c = {"schema": sname, "doc": doc, "features": list(combo), "builder": builder}
                c["id"] = "%s{%s}%s" % (sname, ",".join(combo), "+b" if builder else "")
                c["key"] = key_of(["C15", c["id"], doc])
                out.append(c)
    return out


def build_cli():
    env = dict(CARGO_ENV)
    env["CARGO_TARGET_DIR"] = TARGET_REPO
    p = subprocess.run(["cargo", TOOLCHAIN, "build", "--offline", "-p", "cargo-typify"], cwd=REPO, env=env, stdout=subprocess.PIPE, stderr=subprocess.PIPE)
    if p.returncode != 0:
        raise MachineryError("cargo-typify does not build:\n" + p.stderr.decode(errors="replace")[-3000:])
    return os.path.join(TARGET_REPO, "debug", "cargo-typify")


def norm_items(items, drop_anchor=False):
    out = []
    for it in items or []:
        mod, kind, name, text = it
        if drop_anchor and kind == "const" and name == "_" and re.match(r"^const\s+_\s*:\s*&\s*str\s*=", text):
            continue   # the macro's `const _: &str = include_str!(..)` rebuild anchor
        text = re.sub(r"\s+", " ", text).strip()
        text = re.sub(r"\b(mac|bld)_\d+\b", "modN", text)   # derive expansions embed module_path!()
        text = re.sub(r",\s*([\)\]\}>])", r" \1", text)   # formatting: rustfmt adds trailing commas to multi-line lists
        text = re.sub(r"\s+(?=[\)\]\}>,;])|(?<=[\(\[\{<])\s+", "", text)
        out.append((mod, kind, name, text))
    return sorted(out)


def first_item_diff(a, b):
    sa, sb = set(a), set(b)
    fa = {(x[0], x[1], x[2]): x[3] for x in sa - sb}
    for x in sorted(sb - sa):
        k = (x[0], x[1], x[2])
        if k in fa:
            i = 0
            while i < min(len(fa[k]), len(x[3])) and fa[k][i] == x[3][i]:
                i += 1
            return {"item": list(k), "front_end": fa[k][max(0, i - 80): i + 80], "builder": x[3][max(0, i - 80): i + 80]}
    only_a = sorted(sa - sb)[:2]
    only_b = sorted(sb - sa)[:2]
    return {"only_front_end": [(x[0], x[1], x[2], x[3][:200]) for x in only_a], "only_builder": [(x[0], x[1], x[2], x[3][:200]) for x in only_b]}


def run_cli(exe, c, feats, workdir):
    d = tempfile.mkdtemp(prefix="cli_", dir=workdir)
    inp = os.path.join(d, "in.json")
    with open(inp, "w") as f:
        json.dump(c["doc"], f)
    args = [exe, "typify", inp, "-o", "-"] + (["--builder"] if c["builder"] else ["--no-builder"])
    for fn in c["features"]:
        args += feats[fn][1]
    p = _run_cli(args, d)
    files = sorted(os.listdir(d))
    shutil.rmtree(d, ignore_errors=True)
    return p.returncode, p.stdout.decode("utf-8", errors="replace"), p.stderr.decode("utf-8", errors="replace")[-400:], files


def path_rules(exe, workdir):
    """default output path, -o file, -o -, nothing written on failure"""
    probs = []
    good = {"definitions": {"A": {"type": "object", "properties": {"x": INT}}}}
    bad = {"definitions": {"A": {"type": "object", "properties": {"x": {"type": "string", "default": 5}}}}}   # invalid default -> conversion fails
    n = 0
    for name in ("in.json", "noext", "two.dots.json", "dir.d/in.json"):
        d = tempfile.mkdtemp(prefix="path_", dir=workdir)
        inp = os.path.join(d, name)
        os.makedirs(os.path.dirname(inp), exist_ok=True)
        json.dump(good, open(inp, "w"))
        before = set(_walk(d))
        p = _run_cli([exe, "typify", inp], d)
        n += 1
        base, ext = os.path.splitext(name)
        want = base + ".rs"
        created = set(_walk(d)) - before
        if p.returncode != 0 or created != {want} or p.stdout:
            probs.append("default path for %s: rc=%d created=%s stdout=%d bytes, expected file %s" % (name, p.returncode, sorted(created), len(p.stdout), want))
        # -o file
        p = _run_cli([exe, "typify", inp, "-o", os.path.join(d, "out_here.rs")], d)
        n += 1
        created2 = set(_walk(d)) - before - created
        if p.returncode != 0 or created2 != {"out_here.rs"} or p.stdout:
            probs.append("-o file for %s: rc=%d created=%s" % (name, p.returncode, sorted(created2)))
        # -o -
        before3 = set(_walk(d))
        p = _run_cli([exe, "typify", inp, "-o", "-"], d)
        n += 1
        if p.returncode != 0 or not p.stdout or set(_walk(d)) != before3:
            probs.append("-o - for %s: rc=%d stdout=%d bytes new files=%s" % (name, p.returncode, len(p.stdout), sorted(set(_walk(d)) - before3)))
        # the files hold exactly the items (what -o - prints); and a destination that already EXISTS - longer, shorter or equal - is replaced
        stdout_text = p.stdout
        for dest, extra_args in ((os.path.join(d, want), []), (os.path.join(d, "out_here.rs"), ["-o", os.path.join(d, "out_here.rs")])):
            for old in (b"// stale\n" * 4000, b"x", stdout_text):
                open(dest, "wb").write(old)
                p2 = _run_cli([exe, "typify", inp] + extra_args, d)
                n += 1
                now = open(dest, "rb").read() if os.path.exists(dest) else None
                if p2.returncode != 0 or now != stdout_text:
                    probs.append("existing destination (%d bytes) for %s %s: rc=%d, file holds %s bytes, the items are %d bytes%s" % (
                        len(old), name, extra_args[:1], p2.returncode, None if now is None else len(now), len(stdout_text),
                        "" if now is None or now.startswith(stdout_text) is False else " (new text followed by a stale tail)"))
        shutil.rmtree(d, ignore_errors=True)
    # failure: nothing written, existing output untouched
    for how in ("default", "-o"):
        d = tempfile.mkdtemp(prefix="fail_", dir=workdir)
        inp = os.path.join(d, "in.json")
        json.dump(bad, open(inp, "w"))
        outp = os.path.join(d, "in.rs" if how == "default" else "keep.rs")
        open(outp, "w").write("// precious\n")
        args = [exe, "typify", inp] + ([] if how == "default" else ["-o", outp])
        p = _run_cli(args, d)
        n += 1
        if p.returncode == 0 or p.stdout or open(outp).read() != "// precious\n" or len(_walk(d)) != 2:
            probs.append("failing schema (%s): rc=%d stdout=%d bytes output file %s files=%s" % (
                how, p.returncode, len(p.stdout), "modified" if open(outp).read() != "// precious\n" else "intact", _walk(d)))
        shutil.rmtree(d, ignore_errors=True)
    return probs, n


def _walk(d):
    out = []
    for root, _, files in os.walk(d):
        for fn in files:
            out.append(os.path.relpath(os.path.join(root, fn), d))
    return sorted(out)


SPEC_TOKENS = ["a", "a2", "-b", "_c", "2", "@", "=", "1.0.0", "1.2.3-rc.1", "*", "!", "."]
NAME_RX = re.compile(r"^[A-Za-z0-9_-]+$")
_PRE_ID = r"(?:0|[1-9]\d*|\d*[A-Za-z-][0-9A-Za-z-]*)"
SEMVER_RX = re.compile(r"^(0|[1-9]\d*)\.(0|[1-9]\d*)\.(0|[1-9]\d*)(-%s(\.%s)*)?(\+[0-9A-Za-z-]+(\.[0-9A-Za-z-]+)*)?$" % (_PRE_ID, _PRE_ID))


def spec_grammatical(s):
    """reference grammar: [rename=]name@(semver|*|!) with names [A-Za-z0-9_-]+"""
    rename = None
    if "=" in s:
        rename, s = s.split("=", 1)
        if not NAME_RX.match(rename):
            return False
    if "@" not in s:
        return False
    name, vers = s.split("@", 1)
    if not NAME_RX.match(name):
        return False
    return vers in ("*", "!") or bool(SEMVER_RX.match(vers))


def spec_strings(tier):
    out = set()
    maxlen = 3 if tier == "quick" else 4
    for n in range(1, maxlen + 1):
        for combo in itertools.product(SPEC_TOKENS, repeat=n):
            out.add("".join(combo))
    return sorted(out)


def run_specs(exe, tier, workdir):
    d = tempfile.mkdtemp(prefix="spec_", dir=workdir)
    inp = os.path.join(d, "in.json")
    json.dump({"definitions": {"A": {"type": "object"}}}, open(inp, "w"))
    strings = spec_strings(tier)

    def one(s):
        p = _run_cli([exe, "typify", inp, "-o", "-", "--crate=" + s], d)
        return s, p.returncode
    with ThreadPoolExecutor(max_workers=NPROC) as ex:
        res = list(ex.map(one, strings))
    shutil.rmtree(d, ignore_errors=True)
    return res


EXPAND_LIB_HEAD = '''#![allow(warnings)]
pub struct Ext;
pub struct MyUuid;
'''


def expand_macro(cases_, feats_by_schema, builder_tokens, tier, extra_env=None):
    """one crate; per case a module with import_types!(..) and a sibling module with the builder's tokens; rustc expands both"""
    d = os.path.join(WORK, "batch", "c15_expand_" + tier)
    if os.path.exists(d):
        shutil.rmtree(d)
    ensure_dir(os.path.join(d, "src"))
    with open(os.path.join(d, "Cargo.toml"), "w") as f:
        deps = ['typify = { path = "%s/typify" }' % REPO, 'serde = { version = "1.0.219", features = ["derive"] }', 'serde_json = "1.0.140"', 'schemars = "0.8.22"',
                'chrono = { version = "0.4.40", features = ["serde"] }', 'uuid = { version = "1.16.0", features = ["serde"] }', 'regress = "0.10.3"',
                'verif_support = { path = "%s/support" }' % ENGINE]
        # stand-ins for the external crates named by the x-rust-type extensions: only their paths have to resolve
        for n in ("ext_crate", "ext_crate2", "h2", "my_ext", "h3_x"):
            sd = ensure_dir(os.path.join(d, "stubs", n, "src"))
            open(os.path.join(d, "stubs", n, "Cargo.toml"), "w").write('[package]\nname = "%s"\nversion = "0.0.0"\nedition = "2021"\npublish = false\n' % n)
            open(os.path.join(sd, "lib.rs"), "w").write("pub mod sub { pub struct Thing; }\npub struct Other2;\npub struct Hh;\n")
            deps.append('%s = { path = "stubs/%s" }' % (n, n))
        f.write('[package]\nname = "c15_expand_%s"\nversion = "0.0.0"\nedition = "2021"\npublish = false\n\n[workspace]\n\n[dependencies]\n%s\n'
                '\n[profile.dev]\ndebug = 0\nopt-level = 0\nincremental = false\n' % (tier, "\n".join(deps)))
    shutil.copy(os.path.join(REPO, "Cargo.lock"), os.path.join(d, "Cargo.lock"))
    with open(os.path.join(d, "rust-toolchain.toml"), "w") as f:
        f.write('[toolchain]\nchannel = "1.80.1"\n')
    src = [EXPAND_LIB_HEAD]
    written = set()
    for i, c in enumerate(cases_):
        sfile = "schema_%s.json" % c["schema"]
        if sfile not in written:
            json.dump(c["doc"], open(os.path.join(d, sfile), "w"))
            written.add(sfile)
        feats = feats_by_schema[c["schema"]]
        frags = ['schema = "%s"' % sfile]
        if c["builder"]:
            frags.append("struct_builder = true")
        frags += [feats[fn][2] for fn in c["features"]]
        # several `crates = {..}` fragments must be merged into one map
        crates = [re.search(r"crates = \{(.*)\}", fr).group(1).strip() for fr in frags if fr.startswith("crates = ")]
        frags = [fr for fr in frags if not fr.startswith("crates = ")]
        if crates:
            frags.append("crates = { %s }" % ", ".join(crates))
        derives = [re.search(r"derives = \[(.*)\]", fr).group(1).strip() for fr in frags if fr.startswith("derives = ")]
        frags = [fr for fr in frags if not fr.startswith("derives = ")]
        if derives:
            frags.append("derives = [%s]" % ", ".join(derives))
        # a derive given as a GLOBAL path (::std::hash::Hash) must stay global: both modules get a local `std::hash` whose Hash is another
        # derive, so that a front end which drops the leading `::` expands to different items (derive attributes themselves vanish in the expansion)
        shadow = "    #[allow(unused_imports)] mod std { pub mod hash { pub use ::core::fmt::Debug as Hash; } }\n" if any(fn in ("derive_abs", "patch_abs") for fn in c["features"]) else ""
        src.append("pub mod mac_%d {\n%s    typify::import_types!(%s);\n}" % (i, shadow, ", ".join(frags)))
        src.append("pub mod bld_%d {\n%s%s\n}" % (i, shadow, builder_tokens[c["key"]]))
    with open(os.path.join(d, "src", "lib.rs"), "w") as f:
        f.write("\n".join(src))
    env = dict(CARGO_ENV)
    env["CARGO_TARGET_DIR"] = TARGET_REPO
    env["RUSTC_BOOTSTRAP"] = "1"
    if extra_env:
        env.update(extra_env)
        # the expansion must really re-run under the new environment
        open(os.path.join(d, "src", "lib.rs"), "a").write("\n// env %s\n" % json.dumps(extra_env, sort_keys=True))
    p = subprocess.run(["cargo", TOOLCHAIN, "rustc", "--offline", "--lib", "--", "-Zunpretty=expanded"], cwd=d, env=env, stdout=subprocess.PIPE, stderr=subprocess.PIPE)
    text = p.stdout.decode("utf-8", errors="replace")
    err = p.stderr.decode("utf-8", errors="replace")
    shutil.rmtree(d, ignore_errors=True)
    return p.returncode, text, err


def execute(cases_, tier, seed):
    res = Result()
    replaying = len(cases_) == 1
    res.rule = ("one case = (schema, option assignment, builder flag) run through every front-end that can express it; non-trivial = case with >=1 option "
                "feature; distinct by (schema, options)")
    exe = build_cli()
    workdir = ensure_dir(os.path.join(WORK, "c15_tmp"))
    feats_by_schema = {s: features(s) for s in {c["schema"] for c in cases_}}
    # (i) builder
    jobs = []
    for c in cases_:
        feats = feats_by_schema[c["schema"]]
        st = merge_settings([{"struct_builder": c["builder"]}] + [feats[fn][0] for fn in c["features"]])
        c["settings"] = st
        jobs.append({"id": c["key"], "settings": st, "ops": [{"root": c["doc"]}], "want": ["items", "tokens"]})
    ans = adapter.run_jobs(jobs)
    builder_items, builder_tokens, builder_status = {}, {}, {}
    for c in cases_:
        a = ans[c["key"]]
        op = (a.get("ops") or [{}])[0]
        ok = op.get("status") == "ok" and (a.get("render") or {}).get("status") == "ok" and a.get("syn_ok")
        builder_status[c["key"]] = "ok" if ok else "failed:%s" % (op.get("msg") or a.get("render"))
        if ok:
            builder_items[c["key"]] = norm_items(a["items"])
            builder_tokens[c["key"]] = a["tokens"]
    # (ii) CLI
    cli_cases = [c for c in cases_ if all(feats_by_schema[c["schema"]][fn][1] is not None for fn in c["features"])]
    with ThreadPoolExecutor(max_workers=NPROC) as ex:
        cli_out = list(ex.map(lambda c: run_cli(exe, c, feats_by_schema[c["schema"]], workdir), cli_cases))
    pj = [{"id": c["key"], "kind": "parse", "source": out[1]} for c, out in zip(cli_cases, cli_out) if out[0] == 0]
    parsed = adapter.run_jobs(pj) if pj else {}
    n_cli = 0
    for c, (rc, out, err, files) in zip(cli_cases, cli_out):
        res.transitions += 1
        n_cli += 1
        feats = {"schema": c["schema"], "features": ",".join(c["features"]), "builder": c["builder"], "front_end": "cli"}
        bs = builder_status[c["key"]]
        if rc != 0:
            if bs == "ok":
                res.violations.append(Violation(c["key"], "cli-fails", "%s: cargo typify exits %d although the builder succeeds: %s" % (c["id"], rc, err[-200:]), c,
                                                expected="same types as the builder", observed={"rc": rc, "stderr": err}, features=feats, items=c["features"]))
            continue
        if bs != "ok":
            res.violations.append(Violation(c["key"], "cli-succeeds-builder-fails", "%s: CLI succeeds, builder: %s" % (c["id"], bs), c, expected=bs, observed="ok", features=feats))
            continue
        pr = parsed[c["key"]]
        if not pr.get("ok"):
            res.violations.append(Violation(c["key"], "cli-unparsable", "%s: CLI output does not parse: %s" % (c["id"], pr.get("err")), c, expected="Rust file", observed=pr.get("err"), features=feats))
            continue
        if files != ["in.json"]:
            res.violations.append(Violation(c["key"], "cli-writes-with-stdout", "%s: -o - created files %s" % (c["id"], files), c, expected=["in.json"], observed=files, features=feats))
        ci = norm_items(pr["items"])
        if ci != builder_items[c["key"]]:
            res.violations.append(Violation(c["key"], "cli-items-differ", "%s: cargo typify output differs from the builder: %s" % (c["id"], json.dumps(first_item_diff(ci, builder_items[c["key"]]))[:300]),
                                            c, expected="items token for token", observed=first_item_diff(ci, builder_items[c["key"]]), features=feats, items=c["features"]))
    # (iii) macro
    mac_cases = [c for c in cases_ if builder_status[c["key"]] == "ok"]
    n_mac = 0
    if mac_cases:
        rc, text, err = expand_macro(mac_cases, feats_by_schema, builder_tokens, tier if not replaying else "replay")
        if rc != 0:
            # attribute expansion errors to a module if possible; otherwise machinery
            m = re.findall(r"--> src/lib.rs:(\d+)", err)
            raise MachineryError("macro expansion crate failed (rc=%d):\n%s" % (rc, err[-3000:]))
        pr = adapter.run_jobs([{"id": "exp", "kind": "parse", "source": text}])["exp"]
        if not pr.get("ok"):
            raise MachineryError("expanded text does not parse: %s" % pr.get("err"))
        by_mod = {}
        for it in pr["items"]:
            top = it[0].split("::")[0]
            rest = "::".join(it[0].split("::")[1:])
            by_mod.setdefault(top, []).append([rest, it[1], it[2], it[3]])
        for i, c in enumerate(mac_cases):
            n_mac += 1
            res.transitions += 1
            feats = {"schema": c["schema"], "features": ",".join(c["features"]), "builder": c["builder"], "front_end": "macro"}
            mi = norm_items(by_mod.get("mac_%d" % i, []), drop_anchor=True)
            bi = norm_items(by_mod.get("bld_%d" % i, []))
            if not bi:
                raise MachineryError("expanded builder module bld_%d is empty" % i)
            if mi != bi:
                res.violations.append(Violation(c["key"], "macro-items-differ", "%s: import_types! expansion differs from the builder: %s" % (c["id"], json.dumps(first_item_diff(mi, bi))[:300]),
                                                c, expected="items token for token", observed=first_item_diff(mi, bi), features=feats, items=c["features"]))
    # path rules and crate specifier grammar (once per run)
    n_paths = n_specs = 0
    if not replaying:
        probs, n_paths = path_rules(exe, workdir)
        if probs:
            k = key_of(["C15", "paths"])
            res.violations.append(Violation(k, "cli-path-rules", "; ".join(probs[:3]), {"key": k, "family": "paths"}, expected="documented output path rules; nothing written on failure",
                                            observed=probs, features={"front_end": "cli"}, items=probs))
        wrong = []
        for s, rc in run_specs(exe, tier, workdir):
            n_specs += 1
            if spec_grammatical(s) and rc != 0:
                wrong.append({"spec": s, "rc": rc, "expected": "accepted"})
        if wrong:
            k = key_of(["C15", "specs"])
            res.violations.append(Violation(k, "cli-rejects-valid-crate-spec", "valid crate specifiers rejected: %s" % [w["spec"] for w in wrong[:6]], {"key": k, "family": "specs"},
                                            expected="every [rename=]name@(semver|*|!) accepted", observed=wrong[:30], features={"front_end": "cli"}, items=[w["spec"] for w in wrong]))
    shutil.rmtree(workdir, ignore_errors=True)
    res.states = len(cases_)
    res.nontrivial = sum(1 for c in cases_ if c["features"])
    res.transitions += n_paths + n_specs
    res.evaluations = res.transitions
    res.extra.update({"cli_runs": n_cli, "macro_expansions": n_mac, "path_rule_runs": n_paths, "crate_specifier_strings": n_specs})
    res.samples = [{"id": c["id"], "settings": c.get("settings")} for c in cases_[:: max(1, len(cases_) // 5)]][:5]
    res.bound = "tier=%s: %d schemas x option assignments with <=%d features (+CLI triples in thorough) x builder off/on; specifier strings: token sequences of length <=%d over %d tokens" % (
        tier, len(schemas(tier)), 1 if tier == "quick" else 2, 3 if tier == "quick" else 4, len(SPEC_TOKENS))
    res.assumptions = ["items are compared as syn-parsed token text; doc attributes included; whitespace and raw-string spelling normalised",
                       "macro expansion by rustc 1.80.1 -Zunpretty=expanded (RUSTC_BOOTSTRAP=1); derives expand identically on both sides"]
    if not res.violations and (not replaying and (n_cli < 10 or n_mac < 10)):   # a subject that breaks everything is reported through its violations, not as vacuity
        raise MachineryError("vacuity guard: cli=%d macro=%d" % (n_cli, n_mac))
    return res


def warm():
    """setup: build cargo-typify and the macro-expansion dependencies once"""
    build_cli()
    doc = {"definitions": {"A": {"type": "object", "properties": {"x": {"type": "integer"}}}}}
    c = {"schema": "rep1", "doc": doc, "features": [], "builder": False, "key": "warm"}
    a = adapter.run_jobs([{"id": "warm", "settings": {}, "ops": [{"root": doc}], "want": ["tokens"]}])["warm"]
    rc, text, err = expand_macro([c], {"rep1": features("rep1")}, {"warm": a["tokens"]}, "warm")
    if rc != 0:
        raise MachineryError("macro expansion warm-up failed:\n" + err[-2000:])
