"""C10 — built-in type selection can represent every value the schema admits.

Space: boundary lattice x formats x (<=2 of the 4 bound keywords) x multipleOf; default table; string and
float format tables. In-process (adapter only): the chosen builtin is read from the public Type API.
Oracle: exact integer arithmetic on the numbers typify was given (schema echoed back through schemars).
"""
import itertools
from fractions import Fraction

from .. import adapter
from ..common import MachineryError, key_of
from ..runner import Result, Violation

INT_TYPES = {
    "i8": (-2 ** 7, 2 ** 7 - 1), "u8": (0, 2 ** 8 - 1), "i16": (-2 ** 15, 2 ** 15 - 1), "u16": (0, 2 ** 16 - 1),
    "i32": (-2 ** 31, 2 ** 31 - 1), "u32": (0, 2 ** 32 - 1), "i64": (-2 ** 63, 2 ** 63 - 1), "u64": (0, 2 ** 64 - 1),
    "::std::num::NonZeroU8": (1, 2 ** 8 - 1), "::std::num::NonZeroU16": (1, 2 ** 16 - 1),
    "::std::num::NonZeroU32": (1, 2 ** 32 - 1), "::std::num::NonZeroU64": (1, 2 ** 64 - 1),
}
FORMAT_RANGE = {
    "int8": INT_TYPES["i8"], "uint8": INT_TYPES["u8"], "int16": INT_TYPES["i16"], "uint16": INT_TYPES["u16"],
    "int32": INT_TYPES["i32"], "uint32": INT_TYPES["u32"], "int": INT_TYPES["i32"], "uint": INT_TYPES["u32"],
    "int64": INT_TYPES["i64"], "uint64": INT_TYPES["u64"],
}
FORMATS = [None] + sorted(FORMAT_RANGE) + ["wibble"]
I64 = INT_TYPES["i64"]

_LIMITS = sorted({v for r in list(INT_TYPES.values())[:8] for v in r})
LATTICE = sorted({x + d for x in _LIMITS for d in (-1, 0, 1)} | {0, 1, -1, 2, -2, 100, 10 ** 18})
QUICK_LATTICE = sorted({x + d for x in (-128, 127, 0, 255, -2 ** 31, 2 ** 31 - 1, 2 ** 32 - 1, -2 ** 63, 2 ** 63 - 1, 2 ** 64 - 1)
                        for d in (-1, 0, 1)} | {2, 100})
BOUND_KEYS = ["minimum", "maximum", "exclusiveMinimum", "exclusiveMaximum"]

STRING_FORMATS = {
    "uuid": "::uuid::Uuid", "date": "::chrono::naive::NaiveDate",
    "date-time": "::chrono::DateTime<::chrono::offset::Utc>", "ip": "::std::net::IpAddr",
    "ipv4": "::std::net::Ipv4Addr", "ipv6": "::std::net::Ipv6Addr",
}
UNKNOWN_STRING_FORMATS = ["email", "hostname", "uri", "time", "wibble"]


def near_miss(f):
    out = [f + "32", f + "64", f + "0", f + "s", f.upper(), f.capitalize(), "x" + f, f[:-1], f + " ", " " + f, f.replace("-", "_"), f.replace("-", ""),
           f.replace("int", "i").replace("uint", "u"), f.rstrip("0123456789"), f.rstrip("0123456789") + "128", f + "-" + f]
    return [x for x in out if x and x != f]


def _mk(family, schema, **feat):
    c = {"family": family, "schema": schema, "features": feat}
    c["key"] = key_of([family, schema])
    return c


def cases(tier, seed):
    out = []
    lat = QUICK_LATTICE if tier == "quick" else LATTICE
    mults = [None, 1, 2] if tier == "quick" else [None, 1, 2, 3]
    for fmt in FORMATS:
        base = {"type": "integer"}
        if fmt:
            base["format"] = fmt
        for mult in mults:
            b0 = dict(base)
            if mult:
                b0["multipleOf"] = mult
            out.append(_mk("bounds", b0, fmt=fmt, nb=0))
            keysets = [(k,) for k in BOUND_KEYS]
            for (k,) in keysets:
                for v in lat:
                    s = dict(b0)
                    s[k] = v
                    out.append(_mk("bounds", s, fmt=fmt, nb=1))
            # quick: multipleOf only next to at most one bound keyword
            pairs = [] if (mult and tier == "quick") else list(itertools.combinations(BOUND_KEYS, 2))
            for (k1, k2) in pairs:
                for v1 in lat:
                    for v2 in lat:
                        s = dict(b0)
                        s[k1] = v1
                        s[k2] = v2
                        out.append(_mk("bounds", s, fmt=fmt, nb=2))
    # the same integer schemas as ONE alternative of a multi-type `type` list ([integer, string], [integer, boolean]): format and bounds still
    # describe the integer alternative
    for tl in (["integer", "string"], ["boolean", "integer"]):
        for fmt in FORMATS:
            b0 = {"type": list(tl)}
            if fmt:
                b0["format"] = fmt
            out.append(_mk("bounds", b0, fmt=fmt, nb=0, tlist="+".join(tl)))
            for k in BOUND_KEYS:
                for v in (0, 1, 255, -1, 2 ** 31 - 1, 2 ** 63, 2 ** 64 - 1):
                    s = dict(b0)
                    s[k] = v
                    out.append(_mk("bounds", s, fmt=fmt, nb=1, tlist="+".join(tl)))
    # default table: format x <=1 bound x default
    dl = QUICK_LATTICE if tier == "quick" else LATTICE
    bl = [None] + ([0, 1, 255, -128, 2 ** 31 - 1] if tier == "quick" else [0, 1, -1, 127, 255, 256, -128, 65535, 2 ** 31 - 1, -2 ** 31, 2 ** 32 - 1, 100])
    for fmt in FORMATS:
        for bk in ["minimum", "maximum", "exclusiveMinimum", "exclusiveMaximum"]:
            for bv in bl:
                if bv is None and bk != "minimum":
                    continue
                for d in list(dl) + ["x", 1.5]:
                    s = {"type": "integer", "default": d}
                    if fmt:
                        s["format"] = fmt
                    if bv is not None:
                        s[bk] = bv
                    out.append(_mk("default", s, fmt=fmt))
    # the same integer schemas written as NULLABLE ({type: [integer, null]}): the default must be judged against the same range
    for fmt in FORMATS:
        for (bk, bv) in ((None, None), ("minimum", 0), ("maximum", 255), ("minimum", -128), ("maximum", 2 ** 31 - 1)):
            for d in dl:
                s = {"type": ["integer", "null"], "default": d}
                if fmt:
                    s["format"] = fmt
                if bk:
                    s[bk] = bv
                out.append(_mk("default", s, fmt=fmt, nullable=True))
    # defaults next to an inclusive AND an exclusive bound on the same side (the effective bound is the tighter one)
    for fmt in (None, "int32", "uint8"):
        for (k1, k2) in (("minimum", "exclusiveMinimum"), ("maximum", "exclusiveMaximum")):
            for v1 in (0, 5, 10):
                for v2 in (0, 5, 10):
                    for d in sorted({v1 - 1, v1, v1 + 1, v2 - 1, v2, v2 + 1}):
                        s = {"type": "integer", "default": d, k1: v1, k2: v2}
                        if fmt:
                            s["format"] = fmt
                        out.append(_mk("default", s, fmt=fmt))
    # string and float format tables
    for fmt in list(STRING_FORMATS) + UNKNOWN_STRING_FORMATS:
        for extra in ({}, {"description": "d"}):
            s = {"type": "string", "format": fmt}
            s.update(extra)
            out.append(_mk("strfmt", s, fmt=fmt))
    # near-miss format names: every recognised format name perturbed (width suffix, case, plural, separator, truncation); anything that is
    # not exactly a recognised name must behave like no format at all (f64 / i64 / String), never like the name it resembles
    for ty, names in (("number", ["float", "double"]), ("integer", [f for f in FORMAT_RANGE]), ("string", list(STRING_FORMATS))):
        known = set(names) | set(FORMAT_RANGE) | set(STRING_FORMATS) | {"float", "double"}
        seen = set()
        for f in names:
            for nm in near_miss(f):
                if nm in known or nm in seen:
                    continue
                seen.add(nm)
                out.append(_mk("fmtnear", {"type": ty, "format": nm}, fmt=nm, base=f, ty=ty))
    for fmt in ["float", "double", "wibble", None]:
        for extra in ({}, {"minimum": 0}, {"maximum": 1.5}):
            s = {"type": "number"}
            if fmt:
                s["format"] = fmt
            s.update(extra)
            out.append(_mk("floatfmt", s, fmt=fmt))
    return out


def _frac(x):
    if x is None:
        return None
    if isinstance(x, float):
        return Fraction(x)
    return Fraction(x)


def admitted(echo, n, clip=True):
    """echo: the integer schema as schemars parsed it (numbers are what typify was given)."""
    fmt = echo.get("format")
    if fmt in FORMAT_RANGE:
        lo, hi = FORMAT_RANGE[fmt]
        if n < lo or n > hi:
            return False
    mn, mx = _frac(echo.get("minimum")), _frac(echo.get("maximum"))
    emn, emx = _frac(echo.get("exclusiveMinimum")), _frac(echo.get("exclusiveMaximum"))
    if mn is not None and n < mn:
        return False
    if mx is not None and n > mx:
        return False
    if emn is not None and n <= emn:
        return False
    if emx is not None and n >= emx:
        return False
    mo = echo.get("multipleOf")
    if mo is not None and Fraction(n) % _frac(mo) != 0:
        return False
    # clip: without a recognised format the statement names i64 as the accepted fallback, so only the i64
    # range is probed (an explicit bound beyond i64 without a format is typify's documented i64 fallback)
    if clip and fmt not in FORMAT_RANGE and (n < I64[0] or n > I64[1]):
        return False
    return True


def _bound_classes(echo):
    """input-derived classification of the effective bounds (never of typify's output), for known findings"""
    lo = [x for x in (_frac(echo.get("minimum")), None if echo.get("exclusiveMinimum") is None else _frac(echo["exclusiveMinimum"]) + 1) if x is not None]
    hi = [x for x in (_frac(echo.get("maximum")), None if echo.get("exclusiveMaximum") is None else _frac(echo["exclusiveMaximum"]) - 1) if x is not None]
    lb = max(lo) if lo else None
    ub = min(hi) if hi else None
    lbc = "none" if lb is None else "lt_0" if lb < 0 else "eq_0" if lb == 0 else "eq_1" if lb == 1 else "gt_1"
    ubc = ("none" if ub is None else "le_i64" if ub <= I64[1] else "gt_i64" if ub < 2 ** 64 - 1 else "eq_u64max" if ub == 2 ** 64 - 1 else "gt_u64")
    return {"lb_class": lbc, "ub_class": ubc}


def _inner_builtin(ans):
    """definition A -> (newtype ->)* builtin name, through the public Type API dump."""
    loc = (ans.get("locate") or {}).get("A") or {}
    if "id" not in loc:
        return None
    types = {t["id"]: t for t in ans["api"]["types"]}
    t = types.get(loc["id"])
    hops = 0
    while t is not None and t.get("kind") == "newtype" and hops < 5:
        t = types.get(t["inner"])
        hops += 1
    if t is None:
        return None
    if t.get("kind") == "enum":
        # a `type` list with several non-null types becomes an untagged enum of one-item variants: the integer alternative is the variant
        # whose payload is neither String nor bool nor a float (the schemas of this family are [integer, string] / [integer, boolean] lists)
        for v in t.get("variants", []):
            if v.get("kind") == "tuple" and len(v.get("data") or []) == 1:
                u = types.get(v["data"][0])
                hops = 0
                while u is not None and u.get("kind") == "newtype" and hops < 5:
                    u = types.get(u["inner"])
                    hops += 1
                if u is not None and u.get("kind") == "builtin" and u["builtin"].replace(" ", "") not in ("bool", "f64", "f32", "::std::string::String"):
                    return u["builtin"].replace(" ", "")
        return "?enum-without-integer-variant"
    if t.get("kind") == "builtin":
        return t["builtin"].replace(" ", "")
    if t.get("kind") == "string":
        return "String"
    return "?" + str(t.get("kind"))


def execute(cases_, tier, seed):
    res = Result()
    res.rule = ("one case = one integer/string/number schema; non-trivial = a bounds case whose chosen type is not i64 "
                "and that admits at least one lattice probe, or a default case whose default is outside the admitted range, "
                "or a format-table row; distinct by schema")
    jobs = []
    for c in cases_:
        k = c["key"]
        if c["family"] == "default":
            doc = {"definitions": {"A": {"type": "object", "properties": {"p": c["schema"]}}}}
            jobs.append({"id": k, "settings": {}, "ops": [{"root": doc}], "want": []})
        else:
            doc = {"definitions": {"A": c["schema"]}}
            jobs.append({"id": k, "settings": {}, "ops": [{"root": doc}], "want": ["api"], "locate": ["A"]})
        jobs.append({"id": k + "/echo", "kind": "echo", "schema": c["schema"]})
    ans = adapter.run_jobs(jobs)
    lat = LATTICE
    chosen_hist = {}
    nontrivial = 0
    for c in cases_:
        k = c["key"]
        a = ans[k]
        echo = ans[k + "/echo"].get("echo")
        res.states += 1
        res.transitions += 1
        fam = c["family"]
        if echo is None:
            raise MachineryError("echo failed for %r" % c["schema"])
        if fam == "bounds":
            op = a["ops"][0]
            if op["status"] != "ok":
                res.violations.append(Violation(k, "rejected:" + op["status"], "integer schema rejected: %r" % c["schema"], c,
                                                expected="Ok", observed=op, features=c["features"]))
                continue
            b = _inner_builtin(a)
            chosen_hist[b] = chosen_hist.get(b, 0) + 1
            if b not in INT_TYPES:
                res.violations.append(Violation(k, "not-an-integer-type", "integer schema mapped to %s" % b, c,
                                                expected="integer builtin", observed=b, features=c["features"]))
                continue
            lo, hi = INT_TYPES[b]
            adm = [n for n in lat if admitted(echo, n)]
            res.transitions += len(lat)
            bad = [n for n in adm if n < lo or n > hi]
            if b != "i64" and adm:
                nontrivial += 1
            if bad:
                feat = dict(c["features"])
                feat["keys"] = "+".join(sorted(kk for kk in c["schema"] if kk in BOUND_KEYS))
                feat.update(_bound_classes(echo))
                mode = "nonzero-admits-zero" if (b.startswith("::std::num::NonZero") and 0 in bad) else "too-narrow"
                res.violations.append(Violation(k, mode, "schema %r admits %s but %s was chosen" % (c["schema"], bad[:4], b), c,
                                                expected={"admitted_probes_outside_type": []},
                                                observed={"chosen": b, "echo": echo, "outside": [str(x) for x in bad]}, features=feat))
        elif fam == "default":
            d = c["schema"]["default"]
            ok_num = isinstance(d, int) and not isinstance(d, bool)
            e2 = dict(echo)
            inside = ok_num and admitted_default(e2, d)
            if not inside:
                nontrivial += 1
            for kk, where in ((k, "member"),):
                op = ans[kk]["ops"][0]
                res.transitions += 1
                if inside and -2 ** 63 <= d <= 2 ** 63 - 1 and op["status"] != "ok":
                    # a default inside the admitted range (and inside i64, hence inside whatever type is chosen for that range) must be accepted
                    feat = dict(c["features"])
                    feat["where"] = where
                    feat["default"] = str(d)
                    res.violations.append(Violation(k, "good-default-rejected:" + where,
                                                    "default %r inside the admitted range of %r: %s %s" % (d, c["schema"], op["status"], op.get("msg")), c,
                                                    expected="ok", observed=op, features=feat))
                if not inside and op["status"] != "err":
                    # a definition-level default of a plain alias is not "honoured" anywhere unless a Default impl exists;
                    # the statement says the numeric default outside the range "is reported as an error"
                    feat = dict(c["features"])
                    feat["where"] = where
                    feat["default"] = str(d)
                    res.violations.append(Violation(k, "bad-default-accepted:" + where,
                                                    "default %r outside admitted range of %r: %s" % (d, c["schema"], op["status"]), c,
                                                    expected="err", observed=op, features=feat))
        elif fam == "strfmt":
            op = a["ops"][0]
            b = _inner_builtin(a) if op["status"] == "ok" else op["status"]
            want = STRING_FORMATS.get(c["features"]["fmt"], "String")
            nontrivial += 1
            if b != want:
                res.violations.append(Violation(k, "string-format-type", "format %s mapped to %s, want %s" % (c["features"]["fmt"], b, want), c,
                                                expected=want, observed=b, features=c["features"]))
        elif fam == "fmtnear":
            op = a["ops"][0]
            b = _inner_builtin(a) if op["status"] == "ok" else op["status"]
            want = {"number": "f64", "integer": "i64", "string": "String"}[c["features"]["ty"]]
            nontrivial += 1
            if b != want:
                res.violations.append(Violation(k, "near-miss-format", "unrecognised format %r (near %r) on type %s mapped to %s, want %s" % (
                    c["features"]["fmt"], c["features"]["base"], c["features"]["ty"], b, want), c, expected=want, observed=b, features=c["features"]))
        elif fam == "floatfmt":
            op = a["ops"][0]
            b = _inner_builtin(a) if op["status"] == "ok" else op["status"]
            want = "f32" if c["features"]["fmt"] == "float" else "f64"
            nontrivial += 1
            if b != want:
                res.violations.append(Violation(k, "float-format-type", "number format %s mapped to %s, want %s" % (c["features"]["fmt"], b, want), c,
                                                expected=want, observed=b, features=c["features"]))
    res.nontrivial = nontrivial
    res.evaluations = res.transitions
    res.extra["chosen_type_histogram"] = chosen_hist
    res.extra["lattice_size"] = len(lat)
    res.samples = [c["schema"] for c in cases_[:: max(1, len(cases_) // 5)]][:5]
    res.bound = ("tier=%s: formats=%d x <=2 of the 4 bound keywords over the lattice (quick: 33-value lattice, multipleOf{1,2} next to <=1 bound; thorough: 46-value lattice x multipleOf{absent,1,2,3}); "
                 "default table; string/float format tables; every case probed with all %d lattice integers" % (tier, len(FORMATS), len(lat)))
    res.assumptions = ["schemars parses numeric keywords as f64; the oracle judges the echoed (parsed) numbers",
                       "on a side with neither bound nor recognised format probes are clipped to the i64 range (statement's fallback)"]
    if not res.violations and (len(cases_) > 20 and len(chosen_hist) < 6):   # a subject that breaks everything is reported through its violations, not as vacuity
        raise MachineryError("vacuity guard: only %d distinct chosen types" % len(chosen_hist))
    return res


def admitted_default(echo, d):
    """is the default inside the range the schema admits (bounds and recognised format; no i64 clip:
    an unbounded integer admits what its chosen i64 holds)"""
    e = {k: v for k, v in echo.items() if k != "default"}
    return admitted(e, d, clip=False)
