"""C14 — replacement, conversion, patch, derive and map-type settings apply everywhere.
Space (use-site matrix): target definition D in {struct, string enum, constrained string newtype} used as required /
optional member, Vec item, map value, tuple slot, newtype-variant and struct-variant payload, nullable union, alias and
allOf member, next to an independent definition with map-typed members (string->T, string->any, constrained keys) and an
inline conversion schema carrying different annotations; settings features {replace D, convert (schema with and without
annotations), patch D (rename + derive), global derive, map type BTreeMap / VMap, builder}, all assignments with <= k
features on (k=1 quick, 2 thorough).
Oracle, syntactic: scan of the parsed output (no item D / every use is the replacement path; conversion type at every
equal-modulo-annotations subschema; Renamed item, old name nowhere, patch derives; global derives on every type; map
path on every map member except string->any). Behavioural: acceptance / round-trip vectors of unaffected types equal
those under default settings (differential)."""
import copy
import itertools
import json
import re

from .. import adapter, wire
from ..common import MachineryError, canon, key_of
from ..runner import Result, Violation

INT = {"type": "integer"}
STR = {"type": "string"}
REPL = "::verif_support::ext::Repl"
CONV = "::verif_support::ext::Conv"
VMAP = "::verif_support::ext::VMap"
BTREE = "::std::collections::BTreeMap"
CONV_SCHEMA = {"type": "string", "format": "x-conv"}
CI_SCHEMA = {"type": "integer", "format": "x-int"}
TARGETS = {
    "struct": {"type": "object", "properties": {"marker_d": INT}, "required": ["marker_d"]},
    "enum": {"type": "string", "enum": ["da", "db"]},
    "newtype": {"type": "string", "maxLength": 3},
    "map": {"type": "object", "additionalProperties": {"type": "integer"}},
    "tagged": {"oneOf": [{"type": "object", "properties": {"Va": {"type": "integer"}}, "required": ["Va"], "additionalProperties": False},
                         {"type": "object", "properties": {"Vb": {"type": "object", "properties": {"marker_d": {"type": "string"}}, "required": ["marker_d"]}},
                          "required": ["Vb"], "additionalProperties": False}, {"type": "string", "enum": ["Vu"]}]},
    "alias_vec": {"type": "array", "items": {"type": "string"}},
    # the target definition carries a title that does not sanitise to its key: settings name definitions by KEY
    "struct_titled": {"title": "A titled target", "type": "object", "properties": {"marker_d": INT}, "required": ["marker_d"]},
    # the target definition carries vendor keywords (x-*): they say nothing about which definition it is
    "struct_vendor": {"type": "object", "properties": {"marker_d": INT}, "required": ["marker_d"], "x-go-name": "Stamp", "x-internal": True},
}
TITLED_NAME = "ATitledTarget"


def ref(n):
    return {"$ref": "#/definitions/" + n}


def obj(props, req=()):
    d = {"type": "object", "properties": props}
    if req:
        d["required"] = list(req)
    return d


def document(kind):
    D = ref("Tgt")
    defs = {
        "Tgt": copy.deepcopy(TARGETS[kind]),
        "UMember": obj({"m": D, "o": D}, ["m"]),
        "UVec": obj({"v": {"type": "array", "items": D}}, ["v"]),
        "UMap": obj({"mm": {"type": "object", "additionalProperties": D}}),
        "UTuple": {"type": "array", "items": [D, INT], "minItems": 2, "maxItems": 2},
        "UExt": {"oneOf": [obj({"V": D}, ["V"]), obj({"S": obj({"x": D, "y": INT}, ["x"])}, ["S"]), {"type": "string", "enum": ["U"]}]},
        "UNull": obj({"n": {"oneOf": [D, {"type": "null"}]}}),
        "UAlias": D,
        "Ind": obj({"a": INT, "mp": {"type": "object", "additionalProperties": INT}, "any": {"type": "object"},
                    "keyed": {"type": "object", "additionalProperties": INT, "propertyNames": {"type": "string", "pattern": "^[a-z]+$"}},
                    # constrained keys, unconstrained values: NOT a string-to-any map (the key type is a generated newtype)
                    "keyed_any": {"type": "object", "propertyNames": {"type": "string", "pattern": "^x-"}},
                    "pat_any": {"type": "object", "patternProperties": {"^y-": {}}, "additionalProperties": False},
                    "cs": dict(CONV_SCHEMA, description="conversion schema inlined at a use site"),
                    "cv": {"type": "array", "items": dict(CONV_SCHEMA, title="Titled")},
                    # maps and conversion schemas in nested positions
                    "vmaps": {"type": "array", "items": {"type": "object", "additionalProperties": INT}},
                    "mmap": {"type": "object", "additionalProperties": {"type": "object", "additionalProperties": STR}},
                    "omap": {"type": ["object", "null"], "additionalProperties": INT},
                    "cm": {"type": "object", "additionalProperties": dict(CONV_SCHEMA)},
                    # near-misses of the conversion schemas: they differ from them in exactly one validation keyword and must NOT be converted
                    "cn_max": dict(CONV_SCHEMA, maxLength=5), "cn_pat": dict(CONV_SCHEMA, pattern="^[a-z]+$"), "cn_fmt": {"type": "string", "format": "x-conv2"},
                    "cn_plain": {"type": "string"}, "cn_enum": dict(CONV_SCHEMA, enum=["a", "b"]),
                    "ci": dict(CI_SCHEMA), "ci_min": dict(CI_SCHEMA, minimum=1), "ci_max": dict(CI_SCHEMA, maximum=255), "ci_range": dict(CI_SCHEMA, minimum=0, maximum=255),
                    "ci_mult": dict(CI_SCHEMA, multipleOf=2), "ci_fmt": {"type": "integer", "format": "x-int2"}, "ci_plain": {"type": "integer"},
                    "ci_vec": {"type": "array", "items": dict(CI_SCHEMA, description="annotated")},
                    "co": {"oneOf": [dict(CONV_SCHEMA), {"type": "null"}]}}, ["a"]),
        "IndEnum": {"oneOf": [obj({"A": INT}, ["A"]), {"type": "string", "enum": ["B"]},
                              obj({"M": {"type": "object", "additionalProperties": INT}}, ["M"]), obj({"C": dict(CONV_SCHEMA)}, ["C"]),
                              obj({"S": obj({"sm": {"type": "object", "additionalProperties": INT}, "sc": dict(CONV_SCHEMA)}, ["sm", "sc"])}, ["S"])]},
        # named types that are NOT definitions: inline titled subschemas (patch targets of the patch_inline feature)
        "IndInline": obj({"mode": {"title": "InlineMode", "type": "string", "enum": ["x", "y"]},
                          # the same titled in-line schema a second time (converted twice, one type)
                          "mode_again": {"title": "InlineMode", "type": "string", "enum": ["x", "y"]},
                          "tags": {"type": "array", "items": {"title": "InlineLabel", "type": "string", "maxLength": 5}},
                          "deep": {"title": "InlineObj", "type": "object", "properties": {"k": INT}}}),
    }
    for k in ("UExt", "IndEnum"):
        for sub in defs[k]["oneOf"]:
            if sub.get("type") == "object":
                sub["additionalProperties"] = False
    # a member declared in BOTH operands of an allOf: once as the reference, once by a schema that narrows nothing (annotations only)
    defs["UAllOfProp"] = {"allOf": [obj({"at": D, "id": INT}, ["at"]), obj({"at": {"description": "declared again; narrows nothing"}})]}
    if kind in ("struct", "struct_vendor"):
        defs["UAllOf"] = {"allOf": [D, obj({"z": INT})]}
    return {"definitions": defs}


FEATURES = ["replace", "convert", "convert_annot", "convert_int", "patch", "patch_inline", "derive", "map_btree", "map_vmap", "builder"]


def settings_for(feats):
    st = {"struct_builder": "builder" in feats}
    if "replace" in feats:
        st["replace"] = {"Tgt": {"type": REPL, "impls": []}}
    if "convert" in feats:
        st["convert"] = [{"schema": CONV_SCHEMA, "type": CONV, "impls": ["FromStr", "Display"]}]
    if "convert_annot" in feats:
        st["convert"] = [{"schema": dict(CONV_SCHEMA, description="given with annotations", title="ConvTitle"), "type": CONV, "impls": ["FromStr", "Display"]}]
    if "convert_int" in feats:
        st["convert"] = st.get("convert", []) + [{"schema": dict(CI_SCHEMA), "type": REPL, "impls": []}]
    if "patch" in feats:
        st["patch"] = {"Tgt": {"rename": "Renamed", "derives": ["PartialEq"]}}
    if "patch_inline" in feats:
        st.setdefault("patch", {})
        st["patch"].update({"InlineMode": {"rename": "RunMode", "derives": ["::schemars::JsonSchema"]}, "InlineLabel": {"rename": "Tag", "derives": ["::schemars::JsonSchema"]},
                            "InlineObj": {"derives": ["::schemars::JsonSchema"]}})
    if "derive" in feats:
        st["derives"] = ["PartialEq"]
    if "map_btree" in feats:
        st["map_type"] = BTREE
    if "map_vmap" in feats:
        st["map_type"] = VMAP
    return st


def cases(tier, seed):
    out = []
    for kind in TARGETS:
        k = (2 if kind == "struct" else 1) if tier == "quick" else 3
        combos = [()]
        for r in range(1, k + 1):
            for combo in itertools.combinations(FEATURES, r):
                if {"replace", "patch"} <= set(combo) or {"convert", "convert_annot"} <= set(combo) or {"map_btree", "map_vmap"} <= set(combo):
                    continue
                combos.append(combo)
        if kind in ("struct_titled", "struct_vendor"):
            combos = [(), ("replace",), ("replace", "derive"), ("derive",), ("replace", "map_btree"), ("replace", "builder")]
        for combo in combos:
            c = {"kind": kind, "features": list(combo), "doc": document(kind), "settings": settings_for(combo)}
            c["id"] = "%s{%s}" % (kind, ",".join(combo))
            c["key"] = key_of(["C14", c["id"], c["doc"], c["settings"]])
            out.append(c)
        # the same type space fed by a SECOND call (another document sharing the hand-written / patched definition): the settings hold for it too
        if kind in ("struct", "enum", "newtype"):
            for combo in ((), ("replace",), ("replace", "derive"), ("patch",), ("derive",)):
                c = {"kind": kind, "features": list(combo), "doc": document(kind), "settings": settings_for(combo), "second": True}
                c["id"] = "%s{%s}+second-call" % (kind, ",".join(combo))
                c["key"] = key_of(["C14", c["id"], c["doc"], c["settings"]])
                out.append(c)
    return out


def ops_for(c):
    ops = [{"root": c["doc"]}]
    if c.get("second"):
        late = {"Late": obj({"t": ref("Tgt"), "ts": {"type": "array", "items": ref("Tgt")}, "n": INT}, ["t"])}
        if "replace" in c["features"]:
            late["Tgt"] = copy.deepcopy(c["doc"]["definitions"]["Tgt"])   # the second document defines the replaced type again (only a replaced name may be re-added)
        ops.append({"refs": late})
    return ops


def nrm(s):
    return (s or "").replace(" ", "").replace(",>", ">")


def type_items(scan):
    return {it["name"]: it for it in (scan or {}).get("mods", {}).get("", []) if it.get("kind") in ("struct", "enum")}


def all_field_types(scan):
    """[(item, member path, type text)] for every field of every struct / variant in the root module"""
    out = []
    for name, it in type_items(scan).items():
        if it["kind"] == "struct":
            for f in it["body"]["fields"]:
                out.append((name, f["name"] or "0", nrm(f["ty"])))
        else:
            for v in it["variants"]:
                for i, f in enumerate(v["body"]["fields"]):
                    out.append((name, "%s.%s" % (v["name"], f["name"] or i), nrm(f["ty"])))
    return out


def idents_in(tokens):
    # identifiers in the token stream outside doc attributes and string literals
    t = re.sub(r'#\s*\[\s*doc\s*=\s*"(?:[^"\\]|\\.)*"\s*\]', " ", tokens)
    t = re.sub(r'"(?:[^"\\]|\\.)*"', " ", t)
    return set(re.findall(r"\b[A-Za-z_][A-Za-z0-9_]*\b", t))


PROBED = ["Ind", "IndEnum", "UMember", "UExt", "UMap", "Tgt"]


ODD_KEYS = ["3d-point", "Self", "it's", "+1", "async", "flat-point", "snake_case_key", "9", "_under", "Ünï"]


def oddkey_family(res):
    """replacement / patch settings name a definition by the type name its KEY yields; that name is learnt from a default-settings run, so the
    family covers keys whose type name is more than a re-casing (leading digit, keyword, punctuation)"""
    def doc_for(key):
        r = {"$ref": "#/definitions/" + key}
        return {"definitions": {key: obj({"marker_d": INT}, ["marker_d"]), "User": obj({"m": r, "v": {"type": "array", "items": r}}, ["m"])}}
    base = adapter.run_jobs([{"id": "odd0:" + k, "settings": {}, "ops": [{"root": doc_for(k)}], "want": ["scan"]} for k in ODD_KEYS])
    names = {}
    for k in ODD_KEYS:
        a = base["odd0:" + k]
        its = type_items(a.get("scan"))
        owners = [n for n, it in its.items() if it["kind"] == "struct" and any(f["name"] == "marker_d" for f in it["body"]["fields"])]
        if len(owners) == 1:
            names[k] = owners[0]
    jobs = []
    for k, n in names.items():
        jobs.append({"id": "oddR:" + k, "settings": {"replace": {n: {"type": REPL, "impls": []}}}, "ops": [{"root": doc_for(k)}], "want": ["scan"]})
        jobs.append({"id": "oddP:" + k, "settings": {"patch": {n: {"rename": "Renamed", "derives": ["PartialEq"]}}}, "ops": [{"root": doc_for(k)}], "want": ["scan"]})
    ans = adapter.run_jobs(jobs) if jobs else {}
    for k, n in names.items():
        for mode in ("R", "P"):
            a = ans["odd%s:%s" % (mode, k)]
            res.states += 1
            res.transitions += 1
            res.nontrivial += 1
            key = key_of(["C14", "oddkey", mode, k])
            case = {"key": key, "oddkey": k, "type_name": n, "mode": "replace" if mode == "R" else "patch", "id": "oddkey[%s]{%s}" % (k, "replace" if mode == "R" else "patch")}
            feats = {"kind": "oddkey", "features": case["mode"], "key": k}
            op = (a.get("ops") or [{}])[0]
            if a.get("abort") or op.get("status") != "ok" or not a.get("syn_ok"):
                res.violations.append(Violation(key, "ingest-failed", "%s: %s" % (case["id"], op), case, expected="ok", observed=op, features=feats))
                continue
            its = type_items(a["scan"])
            fts = {(i, m): t for (i, m, t) in all_field_types(a["scan"])}
            probs = []
            if mode == "R":
                if n in its:
                    probs.append("replaced definition %s (key %r) is still generated" % (n, k))
                if fts.get(("User", "m")) != REPL:
                    probs.append("User.m: type %s, expected %s" % (fts.get(("User", "m")), REPL))
                if fts.get(("User", "v")) != "::std::vec::Vec<%s>" % REPL:
                    probs.append("User.v: type %s, expected Vec<%s>" % (fts.get(("User", "v")), REPL))
            else:
                if "Renamed" not in its or n in its:
                    probs.append("patched definition %s (key %r) does not appear as Renamed: %s" % (n, k, sorted(its)))
                elif "PartialEq" not in [nrm(d) for d in its["Renamed"]["attrs"]["derives"]]:
                    probs.append("Renamed lacks the patch derive PartialEq")
                if fts.get(("User", "m")) != "Renamed":
                    probs.append("User.m: type %s, expected Renamed" % fts.get(("User", "m")))
            if probs:
                res.violations.append(Violation(key, "syntactic", "%s: %s" % (case["id"], "; ".join(probs)), case, expected="the setting applies to the definition named by that key",
                                                observed=probs, features=feats))


def execute(cases_, tier, seed):
    res = Result()
    if len(cases_) == 1 and cases_[0].get("oddkey"):
        # replay of an odd-key case: the family is small, run it whole and keep the case asked for
        oddkey_family(res)
        res.violations = [v for v in res.violations if v.key == cases_[0]["key"]]
        res.rule, res.bound = "replay of one odd-key case", "replay"
        return res
    replaying = len(cases_) == 1
    if replaying and cases_[0]["features"]:
        base = dict(cases_[0], features=[], settings=settings_for(()), id="%s{}" % cases_[0]["kind"])
        base["key"] = key_of(["C14", base["id"], base["doc"], base["settings"]])
        cases_ = [base] + cases_
    res.rule = ("one case = (target kind, settings assignment) over a document holding every use site; non-trivial = case with >=1 settings feature on; "
                "distinct by (document, settings)")
    jobs = [{"id": c["key"], "settings": c["settings"], "ops": ops_for(c), "want": ["scan", "tokens"]} for c in cases_]
    ans = adapter.run_jobs(jobs)
    base_scan = {}
    for c in cases_:
        if not c["features"]:
            base_scan[(c["kind"], bool(c.get("second")))] = ans[c["key"]].get("scan")
    # behavioural part: one wire case per (case, probed type)
    placed, owner = [], []
    for c in cases_:
        if c.get("second"):
            continue   # the two-call variants are judged on the generated items only
        for t in PROBED:
            if "replace" in c["features"] and t in ("Tgt", "UMember", "UExt", "UMap"):
                continue   # affected by the replacement
            if "convert_int" in c["features"] and t == "Ind":
                continue   # affected: the integer conversion target (Repl) accepts any JSON value at the converted members
            tn = t
            placed.append({"id": "%s/%s" % (c["id"], t), "doc": c["doc"], "target": tn, "settings": c["settings"]})
            owner.append((c, t))
    wcs = wire.run(placed, {}, "c14_" + tier if not replaying else "replay_c14", depth=2, limit=150, use_cache=not replaying)
    vectors = {}
    for (c, t), wc in zip(owner, wcs):
        if wc.compiled:
            vectors[(c["id"], t)] = {canon(r["v"]): (bool((r["res"] or {}).get("ok")), canon(((r["res"] or {}).get("w") or {}).get("v"))) for r in wc.instances}
        else:
            vectors[(c["id"], t)] = ("not-compiled", wc.ingest, wc.errors[:2])
    for c in cases_:
        a = ans[c["key"]]
        res.states += 1
        res.transitions += 1
        feats = {"kind": c["kind"], "features": ",".join(c["features"])}
        if c["features"]:
            res.nontrivial += 1
        op = next((o for o in (a.get("ops") or [{}]) if o.get("status") != "ok"), (a.get("ops") or [{}])[0])
        if a.get("abort") or op.get("status") != "ok" or (a.get("render") or {}).get("status") != "ok" or not a.get("syn_ok"):
            res.violations.append(Violation(c["key"], "ingest-failed", "%s: %s" % (c["id"], op or a.get("render")), c, expected="ok", observed={"op": op, "render": a.get("render")}, features=feats))
            continue
        scan = a["scan"]
        items = type_items(scan)
        fts = all_field_types(scan)
        base = base_scan.get((c["kind"], bool(c.get("second"))))
        base_fts = {(i, m): t for (i, m, t) in all_field_types(base)} if base else {}
        probs = []
        F = set(c["features"])
        mp = BTREE if "map_btree" in F else VMAP if "map_vmap" in F else "::std::collections::HashMap"
        if "replace" in F:
            if "Tgt" in items:
                probs.append("replaced definition Tgt is still generated")
            if TITLED_NAME in items:
                probs.append("replaced definition Tgt is still generated (under the name of its title, %s)" % TITLED_NAME)
            for (i, m, t) in fts:
                bt = base_fts.get((i, m))
                if bt is not None and re.search(r"\b(Tgt|%s)\b" % TITLED_NAME, bt):
                    want = re.sub(r"\b(Tgt|%s)\b" % TITLED_NAME, REPL, bt).replace("::std::collections::HashMap", mp)
                    if t != want:
                        probs.append("%s.%s: type %s, expected %s" % (i, m, t, want))
            at = {(i, m): t for (i, m, t) in fts}.get(("UAllOfProp", "at"))
            if at != REPL:
                probs.append("UAllOfProp.at (declared as the reference in one allOf operand and by an annotation-only schema in the other): type %s, expected %s" % (at, REPL))
            if "UAllOf" in items and not any(f["name"] == "marker_d" for f in items["UAllOf"]["body"]["fields"]):
                probs.append("UAllOf lost the merged member marker_d (allOf members are merged structurally)")
        conv_sites = {("Ind", "cs"): "::std::option::Option<{C}>", ("Ind", "cv"): "::std::vec::Vec<{C}>", ("Ind", "cm"): "{M}<::std::string::String,{C}>",
                      ("Ind", "co"): "::std::option::Option<{C}>", ("IndEnum", "C.0"): "{C}", ("IndEnum", "S.sc"): "{C}"}
        int_sites = {("Ind", "ci"): "::std::option::Option<{R}>", ("Ind", "ci_vec"): "::std::vec::Vec<{R}>"}
        if "convert_int" in F:
            got = {(i, m): t for (i, m, t) in fts}
            for (i, m), tmpl in int_sites.items():
                want = tmpl.replace("{R}", REPL)
                if got.get((i, m)) != want:
                    probs.append("%s.%s: type %s, expected %s (subschema equal to the integer conversion schema modulo annotations)" % (i, m, got.get((i, m)), want))
        if F & {"convert", "convert_annot"}:
            got = {(i, m): t for (i, m, t) in fts}
            for (i, m), tmpl in conv_sites.items():
                want = tmpl.replace("{C}", CONV).replace("{M}", mp)
                if got.get((i, m)) != want:
                    probs.append("%s.%s: type %s, expected %s (subschema equal to the conversion schema modulo annotations)" % (i, m, got.get((i, m)), want))
        # generic differential: every member type equals its type under default settings with the substitutions these settings imply
        if base_fts and c["features"]:
            ren = {}
            if "patch" in F:
                ren["Tgt"] = "Renamed"
            if "patch_inline" in F:
                ren.update({"InlineMode": "RunMode", "InlineLabel": "Tag"})
            back = {v: k for k, v in ren.items()}

            def subst(bt):
                if "replace" in F:
                    bt = re.sub(r"\b(Tgt|%s)\b" % TITLED_NAME, REPL, bt)
                for o, n in ren.items():
                    bt = re.sub(r"\b%s\b" % o, n, bt)
                return bt.replace("::std::collections::HashMap", mp)
            for (i, m, t) in fts:
                if (i, m) in conv_sites and F & {"convert", "convert_annot"}:
                    continue
                if (i, m) in int_sites and "convert_int" in F:
                    continue
                bt = base_fts.get((back.get(i, i), m))
                if bt is None:
                    continue
                if t != subst(bt):
                    probs.append("%s.%s: type %s, expected %s (default-settings type with the settings' substitutions)" % (i, m, t, subst(bt)))
        if "patch" in F:
            if "Renamed" not in items:
                probs.append("patched type does not appear as Renamed")
            else:
                dv = [nrm(d) for d in items["Renamed"]["attrs"]["derives"]]
                if "PartialEq" not in dv:
                    probs.append("Renamed lacks the patch derive PartialEq: %s" % dv)
            if "Tgt" in idents_in(a.get("tokens", "")):
                probs.append("old name Tgt still occurs as an identifier in the output")
            for (i, m, t) in fts:
                bt = base_fts.get((i if i != "Renamed" else "Tgt", m))
                if bt is not None and re.search(r"\bTgt\b", bt) and t != re.sub(r"\bTgt\b", "Renamed", bt).replace("::std::collections::HashMap", mp):
                    probs.append("%s.%s: type %s, expected %s" % (i, m, t, re.sub(r"\bTgt\b", "Renamed", bt).replace("::std::collections::HashMap", mp)))
        if "patch_inline" in F:
            for old_name, new_name in (("InlineMode", "RunMode"), ("InlineLabel", "Tag"), ("InlineObj", "InlineObj")):
                if new_name not in items:
                    probs.append("patched inline type %s does not appear as %s" % (old_name, new_name))
                else:
                    dv = [nrm(dd) for dd in items[new_name]["attrs"]["derives"]]
                    if "::schemars::JsonSchema" not in dv:
                        probs.append("%s lacks the patch derive ::schemars::JsonSchema: %s" % (new_name, dv))
                if old_name != new_name and old_name in idents_in(a.get("tokens", "")):
                    probs.append("old name %s still occurs as an identifier in the output" % old_name)
        if "derive" in F:
            for name, it in items.items():
                dv = [nrm(d) for d in it["attrs"]["derives"]]
                if "PartialEq" not in dv:
                    probs.append("%s lacks the global derive PartialEq" % name)
        ind = items.get("Ind")
        if ind:
            fm = {f["name"]: nrm(f["ty"]) for f in ind["body"]["fields"]}
            if not fm.get("mp", "").startswith(mp + "<"):
                probs.append("Ind.mp: %s does not use map type %s" % (fm.get("mp"), mp))
            for mname in ("keyed", "keyed_any", "pat_any"):
                if mp + "<" not in fm.get(mname, ""):
                    probs.append("Ind.%s: %s does not use map type %s" % (mname, fm.get(mname), mp))
                if mname != "keyed" and "::std::string::String," in fm.get(mname, ""):
                    probs.append("Ind.%s: %s has plain String keys although the schema constrains the keys" % (mname, fm.get(mname)))
            if not fm.get("any", "").startswith("::serde_json::Map<"):
                probs.append("Ind.any: %s is not ::serde_json::Map (string-to-any maps are exempt)" % fm.get("any"))
        um = items.get("UMap")
        if um and "replace" not in F:
            t = nrm(um["body"]["fields"][0]["ty"])
            if not t.startswith(mp + "<"):
                probs.append("UMap.mm: %s does not use map type %s" % (t, mp))
        if probs:
            res.violations.append(Violation(c["key"], "syntactic", "%s: %s" % (c["id"], "; ".join(probs[:3])), c, expected="syntactic obligations hold on the parsed output",
                                            observed=probs[:12], features=feats, items=sorted({re.sub(r"\b[A-Z]\w*\.\w+(\.\w+)?", "_", p)[:70] for p in probs})))
        # behavioural, against the default-settings case of the same kind
        if c["features"]:
            bid = "%s{}" % c["kind"]
            for t in PROBED:
                v1 = vectors.get((c["id"], t))
                v0 = vectors.get((bid, t))
                if v1 is None or v0 is None:
                    continue
                res.transitions += 1
                if isinstance(v1, tuple) or isinstance(v0, tuple):
                    if isinstance(v1, tuple) and not isinstance(v0, tuple):
                        res.violations.append(Violation(c["key"], "behaviour:not-compiled", "%s: type %s does not ingest/compile under these settings: %s" % (c["id"], t, str(v1)[:200]), c,
                                                        expected="compiles as under default settings", observed=str(v1)[:600], features=dict(feats, probed=t)))
                    continue
                diff = [k for k in sorted(set(v0) & set(v1)) if v0[k] != v1[k]]
                if diff:
                    res.violations.append(Violation(c["key"], "behaviour:differs", "%s: %s accepts/emits differently from default settings on %d instance(s), e.g. %s: %s vs default %s" % (
                        c["id"], t, len(diff), diff[0], v1[diff[0]], v0[diff[0]]), c, expected="equal acceptance / round-trip vectors", observed=[(k, v1[k], v0[k]) for k in diff[:6]],
                        features=dict(feats, probed=t), items=[json.loads(k) for k in diff]))
    if not replaying or any(c.get("oddkey") for c in cases_):
        oddkey_family(res)
    res.evaluations = res.transitions
    res.extra.update({"behavioural_type_probes": len(placed)})
    res.samples = [{"id": c["id"], "settings": c["settings"]} for c in cases_[:: max(1, len(cases_) // 5)]][:5]
    res.bound = "tier=%s: %d target kinds x all assignments of %d settings features with <=%d on; 12 use sites per document; %d behaviourally probed types" % (
        tier, len(TARGETS), len(FEATURES), 1 if tier == "quick" else 3, len(PROBED)) + (" (k<=2 for the struct target)" if tier == "quick" else "")
    res.assumptions = ["replacement/conversion/map target types live in verif_support::ext and meet exactly the documented requirements"]
    if not res.violations and (len(cases_) > 10 and len(vectors) < 20):   # a subject that breaks everything is reported through its violations, not as vacuity
        raise MachineryError("vacuity guard: %d behavioural vectors" % len(vectors))
    return res
