"""C11 — string conversions of generated types agree with their wire format.
Space: every string-convertible shape (simple enums incl. odd/keyword/case-colliding members, string newtypes with each
constraint kind, natives, deny lists) as a definition / alias, plus untagged enums all of whose alternatives are
string-typed: every ordered pair (and, thorough, triple) of an alternative menu, i.e. every order permutation.
Probes: every string of the instance universe (members, near-miss non-members, boundary lengths, 1/2/4-byte text).
Oracle (differential, no validator): parse / try_from(&str|&String|String) succeed exactly when Deserialize of the JSON
string succeeds, with equal values; Display prints what Serialize writes."""
import itertools

from .. import wire
from ..common import MachineryError
from ..menus import shapes
from ..runner import Result, Violation

SETTINGS = {"struct_builder": False}
ROUTES = ("from_str", "try_from_str", "try_from_string_ref", "try_from_string")

ALTS = {
    "uuid": {"type": "string", "format": "uuid"},
    "date": {"type": "string", "format": "date"},
    "ipv4": {"type": "string", "format": "ipv4"},
    "enum": {"type": "string", "enum": ["a", "bb"]},
    "max2": {"type": "string", "maxLength": 2},
    "pat": {"type": "string", "pattern": "^[a-z]+$"},
    "email": {"type": "string", "format": "email"},
    "host": {"type": "string", "format": "hostname"},
    "plain": {"type": "string"},
    "constw": {"const": "forever"},   # no `type`: typify drops the const and types the alternative as any JSON value
    "enum_untyped": {"enum": ["x1", "x2"]},
    "refenum": {"$ref": "#/definitions/E"},
    "refnew": {"$ref": "#/definitions/N"},
    "refplain": {"$ref": "#/definitions/L"},   # a NAMED unconstrained string: a newtype whose FromStr cannot fail
}
EXTRA_DEFS = {"E": {"type": "string", "enum": ["x", "y"]}, "N": {"type": "string", "minLength": 3}, "L": {"type": "string"}}


def cases(tier, seed):
    out = []
    ctxs = ["def", "ref_alias"] if tier == "quick" else ["def", "ref_alias", "allof1", "root"]
    for sh in shapes.LEAVES + shapes.SOLO_COMPOSITES:
        if not sh.get("strish"):
            continue
        for cid in ctxs:
            p = shapes.place(sh, shapes.CONTEXT[cid])
            if p:
                out.append(p)
    # the systematic families, where the wire form is always a string: string constraints, allOf refinements of strings, unions of strings
    fam = shapes.string_family(tier) + [x for x in shapes.refine_family(tier) if x.get("strish")]
    fam += [x for x in shapes.union_family("thorough") if x["tg"]["un_comb"] == "oneOf" and x["tg"]["un_types"] == "string"]
    for sh in fam:
        sh = dict(sh, strish=True)
        for cid in (["def"] if tier == "quick" else ["def", "ref_alias"]):
            p = shapes.place(sh, shapes.CONTEXT[cid])
            if p:
                out.append(p)
    names = list(ALTS) if tier != "quick" else ["uuid", "enum", "max2", "email", "host", "plain", "refnew", "refplain", "constw", "enum_untyped"]
    combos = list(itertools.permutations(names, 2))
    if tier != "quick":
        combos += list(itertools.permutations(["uuid", "enum", "max2", "email", "host", "date"], 3))
    for combo in combos:
        doc = {"definitions": dict(EXTRA_DEFS, T={"oneOf": [ALTS[n] for n in combo]})}
        out.append({"id": "untagged[%s]@def" % ",".join(combo), "doc": doc, "target": "T", "ff": False, "enf": False, "strish": True,
                    "shape": "untagged_str", "ctx": "def", "combo": list(combo)})
    return out


def execute(cases_, tier, seed):
    res = Result()
    wcs = wire.run(cases_, SETTINGS, "wire_str_" + tier if len(cases_) > 1 else "replay_c11", depth=2, want_str=True,
                   use_cache=len(cases_) > 1)
    res.rule = ("one case = one schema yielding a string-convertible type; every string of its universe is sent through Deserialize and through "
                "every conversion the type implements; non-trivial = compiled case implementing >=1 conversion with >=1 accepted and >=1 rejected "
                "probe; distinct by schema document")
    n_probe = 0
    with_routes = 0
    for wc in wcs:
        res.states += 1
        res.transitions += 2
        if not wc.compiled:
            continue
        feats = {"shape": wc.placed.get("shape"), "ctx": wc.placed.get("ctx"), "id": wc.id}
        dis, val, disp = [], [], []
        acc = rej = 0
        has_route = False
        for rec in wc.instances:
            s = rec["v"]
            if not isinstance(s, str):
                continue
            r = rec["res"] or {}
            de_ok = bool(r.get("ok"))
            de_w = (r.get("w") or {}).get("v")
            acc += de_ok
            rej += (not de_ok)
            for k in ROUTES:
                if k not in rec["str"]:
                    continue
                has_route = True
                n_probe += 1
                res.transitions += 1
                rr = rec["str"][k]
                if "ok" not in rr:
                    dis.append({"string": s, "route": k, "observed": rr})
                elif bool(rr["ok"]) != de_ok:
                    dis.append({"string": s, "route": k, "route_ok": rr["ok"], "deserialize_ok": de_ok})
                elif de_ok and (rr.get("w") or {}).get("v") != de_w:
                    val.append({"string": s, "route": k, "route_value": (rr.get("w") or {}).get("v"), "deserialize_value": de_w})
                elif de_ok and rr.get("dbg") is not None and r.get("dbg") is not None and rr.get("dbg") != r.get("dbg"):
                    # same wire form, different value (e.g. another variant of an untagged enum): "gives the same value" is about the value
                    val.append({"string": s, "route": k, "route_value": rr.get("dbg"), "deserialize_value": r.get("dbg")})
            if "display" in rec["str"] and de_ok:
                has_route = True
                n_probe += 1
                res.transitions += 1
                d = rec["str"]["display"]
                if not d.get("ok") or d.get("display") != (d.get("w") or {}).get("v"):
                    disp.append({"string": s, "display": d.get("display"), "serialized": (d.get("w") or {}).get("v")})
        if has_route:
            with_routes += 1
            if acc and rej:
                res.nontrivial += 1
        for mode, items in (("route-disagrees", dis), ("route-value-differs", val), ("display-differs", disp)):
            if items:
                res.violations.append(Violation(wc.key, mode, "%s: %s" % (wc.id, items[0]), wc.placed,
                                                expected="all string routes agree with the wire format", observed={"items": items[:10], "ident": wc.ident},
                                                features=feats, items=[i["string"] for i in items]))
    res.evaluations = res.transitions
    res.extra.update({"string_probes": n_probe, "cases_with_conversions": with_routes})
    res.samples = [{"id": wc.id, "doc": wc.placed["doc"]} for wc in wcs[:: max(1, len(wcs) // 4)]][:4]
    res.bound = "tier=%s: string-ish leaves x {def, alias%s}; untagged string enums: all ordered pairs%s of the alternative menu" % (
        tier, "" if tier == "quick" else ", allOf, root", "" if tier == "quick" else " and triples")
    res.assumptions = ["only conversions the emitted code implements (syn scan of impl headers) are probed"]
    if not res.violations and (len(cases_) > 20 and (n_probe < 500 or with_routes < 20)):   # a subject that breaks everything is reported through its violations, not as vacuity
        raise MachineryError("vacuity guard: probes=%d cases_with_conversions=%d" % (n_probe, with_routes))
    return res
