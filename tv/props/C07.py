"""C07 — recursive schemas produce finitely sized types.
Space: directed multigraphs over n definitions; node kinds struct / alias / externally tagged enum; edge kinds = the
arms of get_child_ids as a schema author reaches them (required, optional, nullable union, tuple slot, two adjacent
tuple slots, fixed-array item, alias, enum newtype/struct/tuple variant payload) plus the heap kinds that must not be
followed (Vec item, map value). n=1 complete, n=2 complete (quick: <=1 edge per node), n=3 over a reduced alphabet;
each graph also with an acyclic definition sharing Option/tuple nodes with the cycle.
Oracle: independent cycle search on the containment graph read from the public Type API (Box/Vec/Map/Set edges
removed): acyclic; and no Box at all when the input graph has no by-value cycle. Compile tier: graphs with a by-value
cycle are compiled (E0072) and recursive values round-tripped."""
import itertools

from .. import adapter, oracle, wire
from ..common import MachineryError, key_of
from ..runner import Result, Violation

BYVAL = ["req", "opt", "nullable", "tuple", "tuple2", "array"]
HEAP = ["vec", "map"]
SKINDS = BYVAL + HEAP
EKINDS = ["newtype", "sreq", "sopt", "vtuple"]
INT = {"type": "integer"}


def ref(t):
    return {"$ref": "#/definitions/D%d" % t}


def member_schema(kind, t):
    r = ref(t)
    if kind in ("req", "opt"):
        return r
    if kind == "nullable":
        return {"oneOf": [r, {"type": "null"}]}
    if kind == "tuple":
        return {"type": "array", "items": [r, INT], "minItems": 2, "maxItems": 2}
    if kind == "tuple2":
        return {"type": "array", "items": [r, r], "minItems": 2, "maxItems": 2}
    if kind == "array":
        return {"type": "array", "items": r, "minItems": 2, "maxItems": 2}
    if kind == "vec":
        return {"type": "array", "items": r}
    if kind == "map":
        return {"type": "object", "additionalProperties": r}
    raise ValueError(kind)


def node_schema(node):
    k = node[0]
    if k == "struct":
        props, req = {}, []
        for i, (ek, t) in enumerate(node[1]):
            name = "e%d" % i
            props[name] = member_schema(ek, t)
            if ek in ("req", "tuple", "tuple2", "array"):
                req.append(name)
        s = {"type": "object", "properties": props}
        if req:
            s["required"] = req
        return s
    if k == "alias":
        return ref(node[1])
    if k == "wrapdef":
        # the DEFINITION itself is an unnamed by-value wrapper of another definition (Pair = [D; 2], Operands = [D, D], Maybe = oneOf[D, null]):
        # a newtype around an unnamed type, which a cycle may pass through
        (ek, t), = node[1]
        return member_schema(ek, t)
    if k == "ntobj":
        # an object schema carrying an allow list: typify renders a constrained newtype around an inner struct; the listed values
        # do not use the (optional) referring members
        props = {"label": {"type": "string"}}
        for i, (ek, t) in enumerate(node[1]):
            props["e%d" % i] = member_schema(ek, t)
        return {"type": "object", "properties": props, "enum": [{"label": "a"}, {"label": "b"}]}
    if k == "anyof":
        # a NON-exclusive anyOf of object branches: typify renders a struct of flattened Option<subtype> members (by-value edges)
        subs = []
        for i, (ek, t) in enumerate(node[1]):
            subs.append(ref(t) if ek == "newtype" else {"type": "object", "properties": {"x%d" % i: ref(t)}})
        subs.append({"type": "object", "properties": {"other": INT}})
        return {"anyOf": subs}
    if k in ("enum_int", "enum_adj", "enum_unt"):
        subs = []
        for i, (ek, t) in enumerate(node[1]):
            body = ({"type": "object", "properties": {"x": ref(t)}, "required": ["x"]} if ek == "sreq"
                    else {"type": "object", "properties": {"x": ref(t), "y": INT}, "required": ["y"]})
            tag = {"type": "string", "enum": ["V%d" % i]}
            if k == "enum_int":
                v = {"type": "object", "properties": dict(body["properties"], t=tag), "required": ["t"] + body["required"]}
            elif k == "enum_adj":
                v = {"type": "object", "properties": {"t": tag, "c": body}, "required": ["t", "c"]}
            else:
                v = dict(body, additionalProperties=False)
            subs.append(v)
        if k == "enum_unt":
            subs.append({"type": "null"})
        else:
            tagu = {"type": "string", "enum": ["U"]}
            subs.append({"type": "object", "properties": {"t": tagu}, "required": ["t"]})
        return {"oneOf": subs}
    if k == "enum":
        subs = [{"type": "string", "enum": ["U"]}]
        for i, (ek, t) in enumerate(node[1]):
            vn = "V%d" % i
            if ek == "newtype":
                payload = ref(t)
            elif ek == "sreq":
                payload = {"type": "object", "properties": {"x": ref(t)}, "required": ["x"]}
            elif ek == "sopt":
                payload = {"type": "object", "properties": {"x": ref(t), "y": INT}, "required": ["y"]}
            elif ek == "vtuple":
                payload = {"type": "array", "items": [ref(t), INT], "minItems": 2, "maxItems": 2}
            subs.append({"type": "object", "properties": {vn: payload}, "required": [vn], "additionalProperties": False})
        return {"oneOf": subs}
    raise ValueError(k)


def node_edges(node):
    """(target, by_value?) for the independent input-graph analysis"""
    if node[0] in ("struct", "ntobj"):
        return [(t, ek in BYVAL) for ek, t in node[1]]
    if node[0] == "alias":
        return [(node[1], True)]
    return [(t, True) for ek, t in node[1]]


def node_options(n, reduced=False, max_edges=2):
    out = []
    if reduced:
        byv = [None] + [(k, t) for k in ("req", "opt") for t in range(n)]
        vec = [None] + [("vec", t) for t in range(n)]
        for b in byv:
            for v in vec:
                out.append(("struct", tuple(x for x in (b, v) if x)))
        out += [("alias", t) for t in range(n)]
        out += [("enum", ((k, t),)) for k in ("newtype", "sopt") for t in range(n)]
        return out
    se = [(k, t) for k in SKINDS for t in range(n)]
    for m in range(0, max_edges + 1):
        for combo in itertools.combinations_with_replacement(se, m):
            out.append(("struct", tuple(combo)))
    out += [("alias", t) for t in range(n)]
    out += [("wrapdef", ((k, t),)) for k in ("tuple", "tuple2", "array") for t in range(n)]   # (a nullable wrapper of an alias-only cycle would be an ill-founded schema)
    # one-edge nodes of the other container kinds: allow-listed object (newtype around a struct; optional / heap members only, the
    # listed values cannot mention the referring member) and internally / adjacently tagged and untagged enums with a struct variant
    out += [("ntobj", ((k, t),)) for k in ("opt", "nullable", "vec") for t in range(n)]
    out += [(ek, ((k, t),)) for ek in ("enum_int", "enum_adj", "enum_unt") for k in ("sreq", "sopt") for t in range(n)]
    out += [("anyof", ((k, t),)) for k in ("newtype", "sopt") for t in range(n)]
    ee = [(k, t) for k in EKINDS for t in range(n)]
    for m in range(1, max_edges + 1):
        for combo in itertools.combinations_with_replacement(ee, m):
            out.append(("enum", tuple(combo)))
    return out


def input_has_byvalue_cycle(nodes):
    n = len(nodes)
    adj = {i: [t for (t, bv) in node_edges(nodes[i]) if bv] for i in range(n)}
    color = {}

    def dfs(u):
        color[u] = 1
        for v in adj[u]:
            if color.get(v) == 1 or (v not in color and dfs(v)):
                return True
        color[u] = 2
        return False
    return any(i not in color and dfs(i) for i in range(n))


def _alias_only_cycle(nodes):
    """is there a cycle made of alias nodes only (a definition that is nothing but a reference to itself)?"""
    nxt = {i: nd[1] for i, nd in enumerate(nodes) if nd[0] == "alias"}
    for s in nxt:
        seen, u = set(), s
        while u in nxt and u not in seen:
            seen.add(u)
            u = nxt[u]
        if u in seen:
            return True
    return False


OPTKINDS = {"opt", "sopt"}


def _anyof_flatten_cycle(nodes):
    """input-derived: is there a cycle made only of `anyOf [$ref ..]` branches (flattened members whose type is again such a struct)?
    serde's flatten adapters are instantiated recursively along it (known finding: recursion limit while instantiating)."""
    nxt = {i: [t for (k, t) in nd[1] if k == "newtype"] for i, nd in enumerate(nodes) if nd[0] == "anyof"}
    nxt.update({i: [nd[1]] for i, nd in enumerate(nodes) if nd[0] == "alias"})   # an alias definition is the type it names
    if not any(nd[0] == "anyof" for nd in nodes):
        return False
    for s in [i for i, nd in enumerate(nodes) if nd[0] == "anyof"]:
        seen, st = set(), [s]
        while st:
            u = st.pop()
            for v in nxt.get(u, []):
                if v == s:
                    return True
                if v not in seen:
                    seen.add(v)
                    st.append(v)
    return False


def _shared_option_entry(nodes, share):
    """input-derived: is there a definition j that (a) lies on a by-value cycle whose edge INTO j is an optional member
    (struct `opt` / enum struct-variant `sopt`: both are the unnamed type Option<Dj>), and (b) is also referred to through
    an optional member by a definition that is converted earlier (smaller index, or the sharing definition S -> D0)?
    Then the depth-first search enters the cycle through the shared Option<Dj> node (known finding C07-KF2)."""
    n = len(nodes)

    def edges(nd):
        if nd[0] == "alias":
            return [("alias", nd[1])]
        return list(nd[1])
    byval = {i: [t for (k, t) in edges(nodes[i]) if k not in HEAP] for i in range(n)}

    def reaches(a, b):
        seen, st = set(), [a]
        while st:
            u = st.pop()
            for v in byval[u]:
                if v == b:
                    return True
                if v not in seen:
                    seen.add(v)
                    st.append(v)
        return False
    for j in range(n):
        # optional edge into j from a node on a cycle through j
        on_cycle = any(k in OPTKINDS and t == j and (i == j or reaches(j, i)) for i in range(n) for (k, t) in edges(nodes[i]))
        if not on_cycle:
            continue
        earlier = any(k in OPTKINDS and t == j for i in range(j) for (k, t) in edges(nodes[i]))
        if earlier or (share and j == 0):
            return True
    return False


REPL_SETTINGS = {"replace": {"Aardvark": {"type": "::std::string::String", "impls": []}}}


def mk(nodes, share, repl=False):
    defs = {"D%d" % i: node_schema(nd) for i, nd in enumerate(nodes)}
    if repl:
        # a definition of the same batch that is REPLACED (with_replacement) and sorts before the others; D0 mentions it
        defs["Aardvark"] = {"type": "string"}
        defs["Bravo"] = {"type": "object", "properties": {"label": {"$ref": "#/definitions/Aardvark"}}}   # D0.. sort LAST in the batch
    if share:
        defs["S"] = {"type": "object", "properties": {"p": ref(0), "q": {"type": "array", "items": [ref(0), INT], "minItems": 2, "maxItems": 2},
                                                        "r": {"oneOf": [ref(0), {"type": "null"}]}}, "required": ["q"]}
    doc = {"definitions": defs}
    c = {"nodes": [list(map(_l, nd)) if False else _ser(nd) for nd in nodes], "share": share, "doc": doc, "n": len(nodes), "repl": repl}
    c["key"] = key_of([doc, repl])
    return c


# the consumer-chosen map type, in the spellings the README / tests / users write: a map's values are behind the map's own allocation
# whatever its name is, so cycles through map values need no Box under any of them
MAP_TYPES = ["std::collections::BTreeMap", "::std::collections::HashMap", "::verif_support::ext::VMap"]


def with_map_type(c, mt):
    c2 = dict(c, mapt=mt)
    c2["key"] = key_of([c["doc"], c["repl"], mt])
    return c2


def _l(x):
    return x


def _ser(nd):
    if nd[0] == "alias":
        return ["alias", nd[1]]
    return [nd[0], [list(e) for e in nd[1]]]


def _deser(nd):
    if nd[0] == "alias":
        return ("alias", nd[1])
    return (nd[0], tuple(tuple(e) for e in nd[1]))


def cases(tier, seed):
    out = []
    shares = [False, True]
    for nd in node_options(1):
        for sh in shares:
            out.append(mk([nd], sh))
    for nd in node_options(1):
        out.append(mk([nd], False, repl=True))
    opts2 = node_options(2, max_edges=1 if tier == "quick" else 2)
    for a in node_options(2, max_edges=1):
        for b in node_options(2, max_edges=1):
            out.append(mk([a, b], False, repl=True))
    for a in opts2:
        for b in opts2:
            out.append(mk([a, b], False))
            if tier != "quick":
                out.append(mk([a, b], True))
    # n=3 "fan": a definition outside a 2-cycle that holds BOTH cycle members by value (so both are queued before either is processed);
    # the outside definition sorts before or after the cycle; every by-value edge kind inside the cycle
    for parent in (0, 2):
        a, b = [i for i in range(3) if i != parent]
        for ka in ("req", "opt"):
            for kb in ("req", "opt", "tuple"):
                for k1 in BYVAL:
                    for k2 in BYVAL:
                        nodes = [None, None, None]
                        nodes[parent] = ("struct", ((ka, a), (kb, b)))
                        nodes[a] = ("struct", ((k1, b),))
                        nodes[b] = ("struct", ((k2, a),))
                        out.append(mk(nodes, False))
    if tier != "quick":
        o3 = node_options(3, reduced=True)
        for a in o3:
            for b in o3:
                for c in o3:
                    out.append(mk([a, b, c], False))
    # two back edges out of ONE node to two DIFFERENT nodes of the current path: n = 2 with a two-edge second node (to the first node and to
    # itself), and the chain 0 -> 1 -> 2 whose last node points back at 0 and at 1; every by-value member / variant kind on the back edges
    two = [("struct", k1, k2) for k1 in BYVAL for k2 in BYVAL] + [("enum", k1, k2) for k1 in ("newtype", "sreq", "vtuple") for k2 in ("newtype", "sreq", "vtuple")
                                                                  if k1 in EKINDS and k2 in EKINDS]
    for (kind, k1, k2) in two:
        for first in (("struct", (("req", 1),)), ("enum", (("newtype", 1),))):
            out.append(mk([first, (kind, ((k1, 0), (k2, 1)))], False))
            out.append(mk([first, (kind, ((k2, 1), (k1, 0)))], False))
            out.append(mk([first, ("struct", (("req", 2),)), (kind, ((k1, 0), (k2, 1)))], False))
            out.append(mk([first, ("struct", (("opt", 2),)), (kind, ((k2, 1), (k1, 0)))], False))
    # the same graphs under other map types, wherever a reference passes through map values (n <= 2; every n in the thorough tier)
    base = list(out)
    for c in base:
        if c.get("repl") or (tier == "quick" and c["n"] > 2):
            continue
        if any(nd[0] != "alias" and any(e[0] == "map" for e in nd[1]) for nd in c["nodes"]):
            for mt in (MAP_TYPES if (tier != "quick" or c["n"] == 1) else MAP_TYPES[:1]):
                out.append(with_map_type(c, mt))
    # the targeted families overlap with the full n = 3 product of the thorough tier: one case per distinct (document, settings)
    seen, uniq = set(), []
    for c in out:
        if c["key"] not in seen:
            seen.add(c["key"])
            uniq.append(c)
    return uniq


def containment_cycle(types):
    """DFS over the containment graph (heap edges removed). Returns a cycle as a list of ids, or None."""
    adj = {}
    for t in types:
        k = t.get("kind")
        kids = []
        if k == "struct":
            kids = [p["type_id"] for p in t["props"]]
        elif k == "enum":
            for v in t["variants"]:
                if v["kind"] == "tuple":
                    kids += v["data"]
                elif v["kind"] == "struct":
                    kids += [i for _, i in v["data"]]
        elif k == "newtype":
            kids = [t["inner"]]
        elif k in ("option", "array"):
            kids = [t["child"]]
        elif k == "tuple":
            kids = list(t["children"])
        adj[t["id"]] = kids
    color, stack = {}, []

    def dfs(u):
        color[u] = 1
        stack.append(u)
        for v in adj.get(u, []):
            if color.get(v) == 1:
                return stack[stack.index(v):] + [v]
            if v not in color:
                r = dfs(v)
                if r:
                    return r
        color[u] = 2
        stack.pop()
        return None
    for u in sorted(adj):
        if u not in color:
            r = dfs(u)
            if r:
                return r
    return None


def _settings(c):
    st = dict(REPL_SETTINGS) if c.get("repl") else {}
    if c.get("mapt"):
        st["map_type"] = c["mapt"]
    return st


def execute(cases_, tier, seed):
    res = Result()
    res.rule = ("one case = one reference multigraph over n definitions (+ optional sharing definition) ingested by the real typify-impl; "
                "non-trivial = graph with a by-value cycle in the input; distinct by schema document")
    jobs = [{"id": c["key"], "settings": _settings(c), "ops": [{"root": c["doc"]}], "want": ["api"]} for c in cases_]
    ans = adapter.run_jobs(jobs)
    to_compile = {}
    n_box_graphs = 0
    for c in cases_:
        a = ans[c["key"]]
        res.states += 1
        res.transitions += 1
        nodes = [_deser(nd) for nd in c["nodes"]]
        cyc_in = input_has_byvalue_cycle(nodes)
        feats = {"n": c["n"], "share": c["share"], "kinds": "+".join(nd[0] for nd in nodes), "repl": bool(c.get("repl")), "mapt": c.get("mapt")}
        op = (a.get("ops") or [{}])[0]
        if a.get("abort") or op.get("status") != "ok":
            res.violations.append(Violation(c["key"], "ingest-failed", "recursive schema rejected/aborted: %s" % (op or a), c, expected="ok",
                                            observed={"op": op, "abort": a.get("abort")}, features=feats))
            continue
        types = a["api"]["types"]
        if cyc_in:
            res.nontrivial += 1
        cyc = containment_cycle(types)
        boxes = [t["id"] for t in types if t.get("kind") == "box"]
        if boxes:
            n_box_graphs += 1
        if cyc:
            names = {t["id"]: t.get("name") for t in types}
            res.violations.append(Violation(c["key"], "unboxed-cycle", "containment cycle without heap indirection: %s" % " -> ".join(str(names.get(i)) for i in cyc),
                                            c, expected="acyclic containment graph", observed={"cycle": [names.get(i) for i in cyc]}, features=feats))
        if boxes and not cyc_in:
            names = {t["id"]: t.get("name") for t in types}
            res.violations.append(Violation(c["key"], "box-without-cycle", "Box introduced although the definitions contain no by-value cycle: %s" % [names[b] for b in boxes],
                                            c, expected="no Box", observed={"boxes": [names[b] for b in boxes]}, features=feats))
        if cyc_in and not c.get("repl") and not c.get("mapt") and (c["n"] == 1 or (tier != "quick" and c["n"] == 2 and not c["share"])):
            # one representative per distinct generated structure
            sig = key_of(sorted((t.get("name"), t.get("kind"), str(t.get("props") or t.get("variants") or t.get("inner"))) for t in types))
            to_compile.setdefault(sig, c)
    # compile tier
    comp_cases = list(to_compile.values())
    if tier == "quick":
        comp_cases = comp_cases[:80]
    placed = [{"id": "graph-" + c["key"], "doc": c["doc"], "target": "D0", "case": c} for c in comp_cases]
    for p in placed:
        if any(nd[0] == "ntobj" for nd in p["case"]["nodes"]):
            # allow-listed objects only compile when the inner struct derives PartialEq (C01-KF10, unrelated to recursion): add that derive here
            p["settings"] = {"struct_builder": False, "derives": ["PartialEq"]}
    n_rt = 0
    if placed:
        wcs = wire.run([{k: v for k, v in p.items() if k != "case"} for p in placed], {"struct_builder": False},
                       "c07_" + tier if len(cases_) > 1 else "replay_c07", depth=3, limit=120, use_cache=len(cases_) > 1)
        for p, wc in zip(placed, wcs):
            c = p["case"]
            res.transitions += 1
            feats = {"n": c["n"], "share": c["share"], "kinds": "+".join(nd[0] for nd in c["nodes"]),
                     "alias_only_cycle": _alias_only_cycle([_deser(nd) for nd in c["nodes"]]),
                     "shared_option_entry": _shared_option_entry([_deser(nd) for nd in c["nodes"]], c["share"]),
                     "anyof_flatten_cycle": _anyof_flatten_cycle([_deser(nd) for nd in c["nodes"]])}
            if wc.compiled is None:
                continue
            if not wc.compiled:
                codes = sorted({e["code"] for e in wc.errors})
                res.violations.append(Violation(c["key"], "compile:" + ",".join(codes), "recursive types do not compile: %s" % wc.errors[0]["msg"], c,
                                                expected="compiles", observed=wc.errors[:5], features=feats))
                continue
            if any(nd[0] == "anyof" for nd in c["nodes"]):
                continue   # structs of flattened Option subtypes do not round-trip (C03-KF4 / C02-KF3): for these graphs the compile result is the observation
            orc = oracle.Oracle(c["doc"])
            bad = []
            for rec in wc.instances:
                if not rec["valid"] or "zz" in rec["flags"] or "mix" in rec["flags"]:
                    continue
                r = rec["res"] or {}
                n_rt += 1
                res.transitions += 1
                if not r.get("ok"):
                    bad.append({"instance": rec["v"], "observed": r})
                    continue
                w = (r.get("w") or {}).get("v")
                w2 = ((r.get("w2") or {}).get("w") or {}).get("v")
                if not orc.valid_def("D0", w) or w2 != w:
                    bad.append({"instance": rec["v"], "w": w, "w2": w2})
            if bad:
                res.violations.append(Violation(c["key"], "recursive-roundtrip", "recursive value does not round-trip: %r" % (bad[0],), c,
                                                expected="valid instances deserialize and round-trip", observed=bad[:5], features=feats,
                                                items=[b["instance"] for b in bad]))
    res.evaluations = res.transitions
    res.extra.update({"graphs_with_box": n_box_graphs, "graphs_compiled": len(placed), "recursive_roundtrips": n_rt})
    res.samples = [c["nodes"] for c in cases_[:: max(1, len(cases_) // 5)]][:5]
    res.bound = ("tier=%s: n=1 complete (with/without sharing definition); n=2 complete with <=%d edges per node%s; compile tier: %d graphs"
                 % (tier, 1 if tier == "quick" else 2, "" if tier == "quick" else " (with/without sharing); n=3 over the reduced alphabet", len(placed)))
    res.assumptions = ["containment graph = Type::details() edges with Box/Vec/Map/Set removed"]
    if not res.violations and (len(cases_) > 50 and (res.nontrivial < 20 or n_box_graphs < 20)):   # a subject that breaks everything is reported through its violations, not as vacuity
        raise MachineryError("vacuity guard: nontrivial=%d graphs_with_box=%d" % (res.nontrivial, n_box_graphs))
    return res
