"""C05 — constraints represented in a generated type cannot be bypassed.
Space: schemas built only from enforced constructs x contexts; every oracle-invalid element of the instance
universe (which contains every single-constraint mutant of every valid instance: member deleted, member added
to a closed struct, enum near-miss, length boundary +-1 in 1/2/4-byte scalars, pattern broken by one character,
tuple arity +-1, scalar swapped for every other JSON type, tag altered) must be rejected; Deserialize, FromStr and
TryFrom must agree on every probe string; constrained newtypes expose no public field or From<inner>."""
from .. import wire, wirefam
from ..common import MachineryError
from ..runner import Result, Violation

SETTINGS = {"struct_builder": False}
EXCLUDED_FLAGS = {"nullopt", "seqobj", "reqnull"}
STR_ROUTES = ("from_str", "try_from_str", "try_from_string_ref", "try_from_string")


# targeted mutator "delete a required non-nullable member" for EVERY member type (also the ones whose own constraints typify does not
# enforce, e.g. sets and free-form values, which keeps them out of the universe-driven part): member type -> a valid sample
REQDEL = {
    "string": ({"type": "string"}, "s"), "integer": ({"type": "integer"}, 1), "number": ({"type": "number"}, 1.5), "bool": ({"type": "boolean"}, True),
    "str_max2": ({"type": "string", "maxLength": 2}, "ab"), "enum_ab": ({"type": "string", "enum": ["a", "b"]}, "a"), "uuid": ({"type": "string", "format": "uuid"}, "00000000-0000-0000-0000-000000000000"),
    "vec": ({"type": "array", "items": {"type": "integer"}}, [1]), "vec_empty": ({"type": "array", "items": {"type": "integer"}}, []),
    "set": ({"type": "array", "items": {"type": "integer"}, "uniqueItems": True}, [1, 2]), "set_empty": ({"type": "array", "items": {"type": "string"}, "uniqueItems": True}, []),
    "map": ({"type": "object", "additionalProperties": {"type": "integer"}}, {"k": 1}), "map_empty": ({"type": "object", "additionalProperties": {"type": "integer"}}, {}),
    "map_any": ({"type": "object"}, {}), "any": ({}, 1), "tuple": ({"type": "array", "items": [{"type": "integer"}, {"type": "string"}], "minItems": 2, "maxItems": 2}, [1, "a"]),
    "array2": ({"type": "array", "items": {"type": "integer"}, "minItems": 2, "maxItems": 2}, [1, 2]), "struct": ({"type": "object", "properties": {"q": {"type": "integer"}}}, {}),
    "ref_struct": ({"$ref": "#/definitions/XObj"}, {"s": "x"}), "ref_set": ({"$ref": "#/definitions/XSet"}, []), "intrinsic_dflt": ({"type": "integer", "default": 0}, 0),
    "other_dflt": ({"type": "string", "default": "d"}, "d"),
}
REQDEL_DEFS = {"XObj": {"type": "object", "properties": {"s": {"type": "string"}}, "required": ["s"]}, "XSet": {"type": "array", "items": {"type": "integer"}, "uniqueItems": True}}


def reqdel_cases():
    out = []
    for t, (schema, sample) in REQDEL.items():
        T = {"type": "object", "properties": {"a": schema, "z": {"type": "integer"}}, "required": ["a", "z"]}
        variant = {"oneOf": [{"type": "object", "properties": {"V": T}, "required": ["V"], "additionalProperties": False}, {"type": "string", "enum": ["U"]}]}
        for ctx, doc, wrap in (("struct", {"definitions": dict(REQDEL_DEFS, T=T)}, lambda x: x),
                               ("variant", {"definitions": dict(REQDEL_DEFS, T=variant)}, lambda x: {"V": x})):
            out.append({"id": "reqdel[%s]@%s" % (t, ctx), "doc": doc, "target": "T", "ff": True, "enf": True, "strish": False, "shape": "reqdel:" + t, "ctx": ctx,
                        "instances": [wrap({"a": sample, "z": 1}), wrap({"z": 1}), wrap({"a": sample})], "judge": True})
    return out


def cases(tier, seed):
    return wirefam.enforced_cases(tier) + reqdel_cases()


def _run(cases_, tier):
    return wire.run(cases_, SETTINGS, "wire_enf_" + tier if len(cases_) > 1 else "replay_c05", depth=wirefam.DEPTH.get(tier, 2),
                    want_str=True, keep_scan=True, use_cache=len(cases_) > 1)


def constrained_newtypes(scan):
    """tuple structs with a hand-written (validating) Deserialize: {name: item}"""
    root = (scan or {}).get("mods", {}).get("", [])
    manual_de = {it["self_ty"].replace(" ", "") for it in root
                 if it.get("kind") == "impl" and (it.get("trait") or "").replace(" ", "") == "::serde::Deserialize<'de>"}
    out = {}
    for it in root:
        if it.get("kind") == "struct" and it["body"]["style"] == "tuple" and it["name"] in manual_de:
            out[it["name"]] = it
    return out, root


def execute(cases_, tier, seed):
    res = Result()
    wcs = _run(cases_, tier)
    res.rule = ("one case = one schema of enforced constructs in a context; every oracle-invalid universe element is a mutant that must be "
                "rejected; non-trivial = compiled case with >=1 valid and >=1 invalid instance; distinct by schema document")
    n_mut = n_skipped_flag = n_str = n_newtypes = 0
    for wc in wcs:
        res.states += 1
        res.transitions += 2
        if not wc.compiled:
            continue
        feats = {"shape": wc.placed.get("shape"), "ctx": wc.placed.get("ctx"), "id": wc.id,
                 "shape_kind": (wc.placed.get("shape") or "").split("(")[0], **(wc.placed.get("tg") or {})}
        nv = ni = 0
        accepted = []
        disagree = []
        for rec in wc.instances:
            r = rec["res"] or {}
            if rec["valid"]:
                nv += 1
            else:
                if EXCLUDED_FLAGS & set(rec["flags"]):
                    n_skipped_flag += 1
                else:
                    ni += 1
                    n_mut += 1
                    res.transitions += 1
                    if r.get("ok"):
                        accepted.append({"instance": rec["v"], "accepted_as": (r.get("w") or {}).get("v")})
            if isinstance(rec["v"], str) and rec["str"]:
                de_ok = bool(r.get("ok"))
                for k in STR_ROUTES:
                    if k in rec["str"]:
                        n_str += 1
                        res.transitions += 1
                        rr = rec["str"][k]
                        if bool(rr.get("ok")) != de_ok:
                            disagree.append({"string": rec["v"], "route": k, "route_ok": bool(rr.get("ok")), "deserialize_ok": de_ok})
        if nv and ni:
            res.nontrivial += 1
        if accepted:
            res.violations.append(Violation(wc.key, "accepts-invalid", "%s: %d oracle-invalid document(s) accepted, e.g. %r" % (wc.id, len(accepted), accepted[0]["instance"]),
                                            wc.placed, expected="Err for every oracle-invalid mutant", observed={"accepted": accepted[:8], "ident": wc.ident},
                                            features=feats, items=[a["instance"] for a in accepted]))
        if disagree:
            res.violations.append(Violation(wc.key, "string-route-disagrees", "%s: %s" % (wc.id, disagree[0]), wc.placed,
                                            expected="parse/try_from agree with Deserialize", observed={"disagree": disagree[:8]},
                                            features=feats, items=[d["string"] for d in disagree]))
        # no public constructor / field on constrained newtypes
        cn, root = constrained_newtypes(wc.scan)
        for name, it in cn.items():
            n_newtypes += 1
            res.transitions += 1
            f0 = it["body"]["fields"][0]
            probs = []
            if f0["vis"] != "private":
                probs.append("field is %s" % f0["vis"])
            inner = f0["ty"].replace(" ", "")
            for imp in root:
                if imp.get("kind") != "impl":
                    continue
                tr = (imp.get("trait") or "").replace(" ", "")
                st = imp["self_ty"].replace(" ", "")
                if st == name and tr in ("::std::convert::From<%s>" % inner, "From<%s>" % inner):
                    probs.append("impl %s for %s" % (tr, name))
                if st == name and not imp.get("trait"):
                    for fn in imp.get("fns", []):
                        if fn["vis"] == "pub" and fn["output"].replace(" ", "") in ("Self", name) and fn["name"] != "builder":
                            probs.append("pub fn %s -> Self" % fn["name"])
            if probs:
                res.violations.append(Violation(wc.key, "public-constructor", "%s: constrained newtype %s: %s" % (wc.id, name, "; ".join(probs)),
                                                wc.placed, expected="no public field/constructor", observed=probs, features=dict(feats, newtype=name),
                                                items=probs))
    res.evaluations = res.transitions
    res.extra.update({"mutants_checked": n_mut, "mutants_excluded_by_alphabet_rule": n_skipped_flag, "string_route_probes": n_str,
                      "constrained_newtypes_scanned": n_newtypes})
    res.samples = [{"id": wc.id, "doc": wc.placed["doc"]} for wc in wcs[:: max(1, len(wcs) // 4)]][:4]
    res.bound = "tier=%s: enforced-construct depth-2 space%s; universe depth %d" % (tier, "" if tier == "quick" else " + depth-3", wirefam.DEPTH.get(tier, 2))
    res.assumptions = ["alphabet rules (DESIGN §11): never null at an Option position, never an array for an object",
                       "oracle = jsonschema Draft7; only oracle-confirmed invalid documents are demanded to fail"]
    if not res.violations and (len(cases_) > 20 and (n_mut < 500 or n_str < 50 or n_newtypes < 5)):   # a subject that breaks everything is reported through its violations, not as vacuity
        raise MachineryError("vacuity guard: mutants=%d str=%d newtypes=%d" % (n_mut, n_str, n_newtypes))
    return res
