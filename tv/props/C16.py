"""C16 — the type space stays consistent across any history of additions (explicit-state search).
State = history of API calls on one TypeSpace, rebuilt by replaying on the real code (a snapshot after every op).
Breadth-first over all histories to depth d over a 22-op alphabet, with repeats. Invariants after every transition:
 I1 every type id seen earlier still resolves with the same (name, ident, structure);
 I2 repeating a type addition returns the same ident and adds no items;
 I3 no two items of one kind+name in the rendered stream, stream parses;
 I4 independent ops commute and R(D1 u D2) == R(D1);R(D2) on the set of definitions."""
import itertools

from .. import adapter
from ..common import MachineryError, canon, key_of
from ..runner import Result, Violation

INT = {"type": "integer"}
STR = {"type": "string"}


def obj(props, req=()):
    d = {"type": "object", "properties": props}
    if req:
        d["required"] = list(req)
    return d


D1 = {"P": obj({"x": INT}, ["x"]), "Labels": {"type": "array", "items": STR}, "Al": {"$ref": "#/definitions/P"},
      "W": obj({"inner": obj({"y": INT})})}
D2 = {"Q": obj({"p": {"$ref": "#/definitions/Q2"}}), "Q2": {"type": "string", "enum": ["a", "b"]},
      # an untagged enum with an in-line enum variant: its impls depend on the variant types' own impls (finalisation order)
      "Level": {"oneOf": [{"type": "string", "enum": ["low", "high"]}, {"type": "integer"}]}}
D3 = {"R1": obj({"r": {"$ref": "#/definitions/R2"}}), "R2": obj({"r": {"$ref": "#/definitions/R1"}})}
D4 = {"WInner": obj({"z": STR}, ["z"])}   # coincides with the inline type name W.inner generates in D1
D5 = {"UsesP": obj({"p": {"$ref": "#/definitions/P"}, "ps": {"type": "array", "items": {"$ref": "#/definitions/Al"}}}, ["p"]),
      "Loop": obj({"again": {"$ref": "#/definitions/Loop"}, "w": {"$ref": "#/definitions/W"}})}   # refers to definitions of an EARLIER batch (D1)
# a non-required member {$ref, default} whose target sorts AFTER the referring definition: its conversion must not depend on whether
# the target was converted earlier (same batch in either listing order, or an earlier call)
D6 = {"Apple": obj({"z": {"$ref": "#/definitions/Zest", "default": "b"}, "y": {"default": "a", "allOf": [{"$ref": "#/definitions/Zest"}]}}),
      "Zest": {"type": "string", "enum": ["a", "b"]}}
D12 = dict(D1)
D12.update(D2)

TIT = dict(obj({"a": INT}), title="Tit")
OPS = {
    "R6": {"refs": D6}, "R6r": {"refs": [["Zest", D6["Zest"]], ["Apple", D6["Apple"]]]}, "R6z": {"refs": {"Zest": D6["Zest"]}}, "R6a": {"refs": {"Apple": D6["Apple"]}},
    "R14": {"refs": dict(D1, **D4)},   # ONE batch holding W (whose in-line member type is named WInner) and a definition WInner
    "R1": {"refs": D1}, "R2": {"refs": D2}, "R3": {"refs": D3}, "R4": {"refs": D4}, "R5": {"refs": D5}, "R12": {"refs": D12},
    "ROOT1": {"root": dict(obj({"p": {"$ref": "#/definitions/P"}}), title="Root1", definitions=D1)},
    "ROOT2": {"root": dict(obj({"t": TIT}), title="Root2", definitions=D2)},
    "ROOT3": {"root": dict(obj({"next": {"$ref": "#"}, "v": INT}, ["v"]), title="Root3")},   # refers to itself through "#"
    "T1": {"type": TIT, "hint": None},
    "T2": {"type": TIT, "hint": "Fresh"},
    "T3": {"type": obj({"k": STR}), "hint": "Labels"},
    "T4": {"type": {"$ref": "#/definitions/P"}, "hint": None},
    "T5": {"type": {"oneOf": [obj({"o": INT}), {"type": "null"}]}, "hint": "Opt"},
    "T6": {"type": obj({"k": INT}), "hint": "Root3"},
    "T7": {"type": {"$ref": "#/definitions/Level"}, "hint": None},   # resolves to a type an earlier call created (needs D2)
    "T8": {"type": {"oneOf": [{"type": "string", "enum": ["low", "high"]}, {"type": "integer"}]}, "hint": "Level"},   # a hinted type that takes the name a later titled root asks for
}
ALPHABET = list(OPS)
# a recursive definition and a non-cyclic one that refers to it through the same kind of (non-required) member: the cycle breaker rewrites the
# shared Option<Node> in place; whether Other sees the rewritten type must not depend on the batching. (Only in the ordering sub-alphabet.)
D7 = {"Node": obj({"next": {"$ref": "#/definitions/Node"}, "v": INT}, ["v"]), "Other": obj({"n": {"$ref": "#/definitions/Node"}, "w": STR})}
# an UNNAMED type (Vec<String>): what a repeated addition returns is decided by the structural lookup table alone
OPS.update({"T10": {"type": {"type": "array", "items": STR}, "hint": None},
            "T11": {"type": obj({"names": {"type": "array", "items": STR}, "n": {"type": ["integer", "null"]}}), "hint": "Holder11"}})
# ONE untitled schema (with an in-line named member) added under two different name hints: the hint is part of what is added
S12 = obj({"kind": {"type": "string", "enum": ["m", "n"]}, "w": INT}, ["kind"])
OPS.update({"T12": {"type": S12, "hint": "Alpha"}, "T13": {"type": S12, "hint": "Beta"}})
HINT_NAMES = {"T12": "Alpha", "T13": "Beta"}
# members whose defaults go through the SHARED default helpers (default_bool, default_u64, default_i64): what one call registered must survive the next
D8 = {"Alpha": obj({"flag": {"type": "boolean", "default": True}, "count": {"type": "integer", "default": 5}, "neg": {"type": "integer", "default": -3}})}
D9 = {"Beta": obj({"on": {"type": "boolean", "default": True}, "n": {"type": "integer", "format": "uint32", "minimum": 1, "default": 7}})}
OPS.update({"R8": {"refs": D8}, "R9": {"refs": D9}, "R89": {"refs": dict(D8, **D9)}, "T14": {"type": {"$ref": "#/definitions/Alpha"}, "hint": None}})
OPS.update({"R7": {"refs": D7}, "R7n": {"refs": {"Node": D7["Node"]}}, "R7o": {"refs": {"Other": D7["Other"]}},
            "T9": {"type": obj({"n": {"$ref": "#/definitions/Node"}, "w": STR}), "hint": "Other"}})
# uses of ONE generic external path (x-rust-type; every crate allowed in this check's settings) with DIFFERENT parameter lists: each use is a type of its own,
# whichever was added first
def _ext(params):
    return {"type": "object", "x-rust-type": {"crate": "std", "version": "1.0.0", "path": "std::option::Option", "parameters": params}}


BOOL = {"type": "boolean"}
OPS.update({"X1": {"type": obj({"v": _ext([STR])}, ["v"]), "hint": "HoldsText"}, "X2": {"type": obj({"v": _ext([BOOL])}, ["v"]), "hint": "HoldsFlag"},
            "X3": {"refs": {"Pair": obj({"a": _ext([STR]), "b": _ext([INT])}, ["a", "b"])}}})
HINT_NAMES.update({"X1": "HoldsText", "X2": "HoldsFlag"})
SUB_EXT = ["X1", "X2", "X3", "T1", "R2"]
SUB6 = ["R1", "R3", "T1", "T3", "T4", "T5", "T10", "T11", "T12", "T13"]
SUB_ORDER = ["R6", "R6r", "R6z", "R6a", "R2", "T1", "R7", "R7n", "R7o", "T9", "R8", "R9", "R89", "T14"]
SUB_ROOTS = ["ROOT3", "T6", "ROOT2", "T1", "R2", "T7", "T8"]
DEFINES = {"X3": {"Pair"}, "R8": {"Alpha"}, "R9": {"Beta"}, "R89": {"Alpha", "Beta"}, "R7": {"Node", "Other"}, "R7n": {"Node"}, "R7o": {"Other"}, "R14": set(D1) | set(D4), "R6": set(D6), "R6r": set(D6), "R6z": {"Zest"}, "R6a": {"Apple"}, "R5": set(D5), "R1": set(D1), "R2": set(D2), "R3": set(D3), "R4": set(D4), "R12": set(D12), "ROOT1": set(D1) | {"Root1"}, "ROOT2": set(D2) | {"Root2"},
           "ROOT3": {"Root3"}}
ROOT_TITLE = {"ROOT1": "Root1", "ROOT2": "Root2", "ROOT3": "Root3"}
NEEDS_D1 = {"T4", "R5"}
PROVIDES_D1 = {"R1", "R12", "ROOT1", "R14"}
# pairs declared independent by the alphabet: disjoint definition names, no cross references, no coinciding inline names
INDEPENDENT = {frozenset(p) for p in [("X1", "X2"), ("X1", "X3"), ("X2", "X3"), ("X1", "T1"), ("X2", "T1"), ("X3", "R2"), ("R8", "R9"), ("R8", "R2"), ("R9", "R2"), ("R8", "T1"), ("R9", "T1"), ("R8", "R6"), ("R9", "R7"), ("T12", "T13"), ("T12", "R3"), ("T13", "R3"), ("T12", "T10"), ("T12", "T1"),
                                      ("R1", "R2"), ("R1", "R3"), ("R2", "R3"), ("R3", "R4"), ("R2", "R4"), ("R3", "R12"),
                                      ("R3", "ROOT1"), ("R2", "T5"), ("R3", "T5"), ("R3", "T1"), ("R3", "T2"), ("R3", "T3") , ("R4", "T5"),
                                      ("R5", "R2"), ("R5", "R3"), ("R5", "ROOT2"), ("R5", "ROOT3"), ("R5", "T5"), ("R5", "T1"),
                                      ("ROOT1", "ROOT2"), ("ROOT1", "R2"), ("ROOT2", "R1"), ("ROOT2", "R3"), ("ROOT1", "ROOT3"), ("ROOT2", "ROOT3"),
                                      ("R1", "ROOT3"), ("R2", "ROOT3"), ("R3", "ROOT3"), ("R12", "ROOT3"), ("ROOT3", "T5"), ("ROOT3", "T1")]}
TYPE_OPS = {"X1", "X2", "T1", "T2", "T3", "T4", "T5", "T6", "T7", "T8", "T9", "T10", "T11", "T12", "T13", "T14"}


def enabled(hist, op):
    if op in NEEDS_D1 and not (set(hist) & PROVIDES_D1):
        return False
    if op == "T7" and not (set(hist) & {"R2", "R12", "ROOT2"}):
        return False
    if op == "R6a" and not (set(hist) & {"R6z"}):
        return False   # Apple refers to Zest
    if op == "T14" and not (set(hist) & {"R8", "R89"}):
        return False   # refers to Alpha
    if op in ("R7o", "T9") and not (set(hist) & {"R7n", "R7"}):
        return False   # Other refers to Node
    return True


def cases(tier, seed):
    out = []

    def rec(hist, alpha, depth):
        if hist:
            out.append({"history": list(hist), "key": key_of(["C16", list(hist)])})
        if len(hist) == depth:
            return
        for op in alpha:
            if enabled(hist, op):
                rec(hist + [op], alpha, depth)
    if tier == "quick":
        rec([], ALPHABET, 3)
        seen = {tuple(c["history"]) for c in out}
        more = []
        tmp, out = out, more
        rec([], SUB6, 4)
        rec([], SUB_ORDER, 3)
        rec([], SUB_ROOTS, 4)
        rec([], SUB_EXT, 3)
        out = tmp + [c for c in more if tuple(c["history"]) not in seen]
    else:
        rec([], ALPHABET, 4)
        seen = {tuple(c["history"]) for c in out}
        more = []
        tmp, out = out, more
        rec([], SUB6 + ["ROOT3", "R6"], 5)
        rec([], SUB_ORDER, 5)
        rec([], SUB_ROOTS, 5)
        rec([], SUB_EXT, 5)
        out = tmp + [c for c in more if tuple(c["history"]) not in seen]
    seen2, res_ = set(), []
    for c in out:
        if c["key"] not in seen2:
            seen2.add(c["key"])
            res_.append(c)
    return res_


def type_sig(t):
    return canon({k: v for k, v in t.items() if k not in ("id",)})


def pascal(n):
    return n[:1].upper() + n[1:]


def execute(cases_, tier, seed):
    res = Result()
    res.rule = ("one case = one history (sequence of add_ref_types/add_root_schema/add_type_with_name calls) replayed on a fresh TypeSpace; "
                "states = distinct canonical states (sorted items + live type table); non-trivial = history reaching a canonical state not "
                "reached by any shorter history")
    jobs = [{"id": c["key"], "settings": {"unknown_crates": "allow"}, "ops": [OPS[o] for o in c["history"]], "want": ["snapshots_compact"]} for c in cases_]
    ans = adapter.run_jobs(jobs)
    final_items = {}
    canon_states = {}
    for c in sorted(cases_, key=lambda c: len(c["history"])):
        h = c["history"]
        a = ans[c["key"]]
        feats = {"len": len(h)}
        if a.get("abort"):
            res.violations.append(Violation(c["key"], "abort", "history aborts the process: %s" % h, c, expected="ok", observed=a, features=feats))
            continue
        ops = a["ops"]
        first_seen = {}
        prev_items = None
        prev_ntypes = None
        prev_idents = {}
        dead = False
        for i, (name, o) in enumerate(zip(h, ops)):
            res.transitions += 1
            if o["status"] == "skipped":
                break
            if o["status"] != "ok":
                # every op is a supported schema whose precondition holds
                if i == len(h) - 1:
                    # input-derived classification: does this op re-add definitions, or define a name an earlier hint/inline type took?
                    newly = {pascal(n) for n in DEFINES.get(name, ())}
                    if newly & {pascal(n) for n in _readded_names(h[:i + 1])}:
                        cls = ":readded-definition"
                    elif newly & _late_defined(h[:i + 1]):
                        cls = ":definition-after-same-named-type"
                    else:
                        cls = ""
                    res.violations.append(Violation(c["key"], "op-" + o["status"] + cls, "%s: op %s %s: %s" % (h, name, o["status"], o.get("msg")), c,
                                                    expected="ok", observed=o, features=dict(feats, op=name)))
                dead = True
                break
            snap = o["snapshot"]
            if snap["render"] != "ok" or not snap["syn_ok"]:
                if i == len(h) - 1:
                    res.violations.append(Violation(c["key"], "I3-render", "%s: rendering fails after %s: %s" % (h, name, str(snap["items"])[:200]), c,
                                                    expected="renders and parses", observed={"render": snap["render"], "syn_ok": snap["syn_ok"], "msg": snap["items"]},
                                                    features=dict(feats, op=name, readd=_readds(h[:i + 1]))))
                dead = True
                break
            items = snap["items"]
            types = {t["id"]: t for t in snap["types"]}
            last = i == len(h) - 1
            # I1
            changed = []
            for tid, sig in first_seen.items():
                t = types.get(tid)
                if t is None:
                    changed.append({"id": tid, "was": sig[:200], "now": None})
                elif type_sig(t) != sig:
                    changed.append({"id": tid, "was": sig[:300], "now": type_sig(t)[:300]})
            if changed and last:
                res.violations.append(Violation(c["key"], "I1-type-changed", "%s: after %s, %d earlier type(s) changed, e.g. %s" % (h, name, len(changed), changed[0]), c,
                                                expected="earlier ids keep name/ident/structure", observed=changed[:5], features=dict(feats, op=name)))
            for tid, t in types.items():
                first_seen.setdefault(tid, type_sig(t))
            # I3 duplicates
            seen = {}
            dups = []
            for it in items:
                k = (it[0], it[1], it[2])
                if it[1] in ("struct", "enum", "type", "fn", "const", "mod"):
                    if k in seen:
                        dups.append(list(k))
                    seen[k] = 1
            if dups and last:
                readded = {pascal(n) for n in _readded_names(h[:i + 1])}
                late = _late_defined(h[:i + 1])
                explained = [d for d in dups if d[2] in readded]
                explained2 = [d for d in dups if d[2] not in readded and d[2] in late]
                other = [d for d in dups if d[2] not in readded and d[2] not in late]
                if explained2:
                    res.violations.append(Violation(c["key"], "I3-duplicate:definition-after-same-named-type",
                                                    "%s: a definition arriving after a hinted/inline type of the same name is emitted next to it: %s" % (h, explained2[:3]), c,
                                                    expected="no two items of one name", observed=explained2[:10], features=dict(feats, op=name), items=explained2))
                if explained:
                    res.violations.append(Violation(c["key"], "I3-duplicate:readded-definition", "%s: definitions added twice are emitted twice: %s" % (h, explained[:3]), c,
                                                    expected="no two items of one name", observed=explained[:10], features=dict(feats, op=name), items=explained))
                if other:
                    res.violations.append(Violation(c["key"], "I3-duplicate", "%s: duplicate items %s" % (h, other[:3]), c,
                                                    expected="no two items of one name", observed=other[:10], features=dict(feats, op=name), items=other))
            # I5: the id a root addition returns names that root, and a "#" reference inside it means that root
            if name in ROOT_TITLE and last:
                rt = types.get(o.get("type_id"), {})
                if rt.get("name") != ROOT_TITLE[name]:
                    res.violations.append(Violation(c["key"], "I5-root-id", "%s: add_root_schema(%s) returned an id naming %r" % (h, ROOT_TITLE[name], rt.get("name")), c,
                                                    expected=ROOT_TITLE[name], observed=rt.get("name"), features=dict(feats, op=name)))
                if name == "ROOT3":
                    # follow member `next` of the returned struct through option/box wrappers: it must come back to the struct itself
                    nxt = next((pr["type_id"] for pr in rt.get("props", []) if pr["name"] == "next"), None)
                    hops = 0
                    while nxt in types and types[nxt].get("kind") in ("option", "box") and hops < 4:
                        nxt = types[nxt].get("child")
                        hops += 1
                    if nxt != o.get("type_id"):
                        res.violations.append(Violation(c["key"], "I5-self-reference", "%s: the '#' reference inside Root3 resolves to %r" % (h, types.get(nxt, {}).get("name")), c,
                                                        expected="Root3", observed=types.get(nxt, {}).get("name"), features=dict(feats, op=name)))
            # I5 (hints): an untitled schema added under a name hint yields a type of that name, whatever was added before under other hints
            if name in HINT_NAMES and last:
                got = types.get(o["type_id"], {}).get("name")
                if got != HINT_NAMES[name]:
                    res.violations.append(Violation(c["key"], "I5-hint-name", "%s: add_type_with_name(.., %s) returned an id naming %r" % (h, HINT_NAMES[name], got), c,
                                                    expected=HINT_NAMES[name], observed=got, features=dict(feats, op=name)))
            # I2: repeating a type addition
            if name in TYPE_OPS and last:
                ident = types.get(o["type_id"], {}).get("ident")
                if name in prev_idents:
                    if prev_idents[name][0] != ident:
                        res.violations.append(Violation(c["key"], "I2-ident-differs", "%s: repeating %s returns %s, first time %s" % (h, name, ident, prev_idents[name][0]), c,
                                                        expected=prev_idents[name][0], observed=ident, features=dict(feats, op=name)))
                    if prev_idents[name][1] != o["type_id"]:
                        res.violations.append(Violation(c["key"], "I2-id-differs", "%s: repeating %s returns type id %s, first time %s" % (h, name, o["type_id"], prev_idents[name][1]), c,
                                                        expected=prev_idents[name][1], observed=o["type_id"], features=dict(feats, op=name)))
                    if prev_ntypes is not None and len(types) != prev_ntypes:
                        res.violations.append(Violation(c["key"], "I2-adds-types", "%s: repeating %s grows the type table from %d to %d entries" % (h, name, prev_ntypes, len(types)), c,
                                                        expected=prev_ntypes, observed=len(types), features=dict(feats, op=name)))
                    if prev_items is not None and sorted(map(tuple, items)) != sorted(map(tuple, prev_items)):
                        added = sorted(set(map(tuple, items)) - set(map(tuple, prev_items)))
                        res.violations.append(Violation(c["key"], "I2-adds-definitions", "%s: repeating %s adds items %s" % (h, name, added[:3]), c,
                                                        expected="no new definitions", observed=added[:10], features=dict(feats, op=name)))
            if name in TYPE_OPS and name not in prev_idents:
                prev_idents[name] = (types.get(o["type_id"], {}).get("ident"), o["type_id"])
            prev_items = items
            prev_ntypes = len(types)
        if dead:
            continue
        final = sorted(map(tuple, prev_items))
        final_items[tuple(h)] = final
        ck = key_of([final, sorted(first_seen.values())])
        if ck not in canon_states:
            canon_states[ck] = h
            res.nontrivial += 1
    # I4: commutation and splitting (differential, across histories)
    n_comm = 0
    for h, items in final_items.items():
        if len(h) >= 2 and frozenset(h[-2:]) in INDEPENDENT and h[-1] != h[-2]:
            sw = h[:-2] + (h[-1], h[-2])
            if sw in final_items and h < sw:
                n_comm += 1
                if final_items[sw] != items:
                    diff = sorted(set(items) ^ set(final_items[sw]))
                    k = key_of(["C16", list(h)])
                    res.violations.append(Violation(k, "I4-order-dependent", "%s vs %s: different definitions %s" % (list(h), list(sw), [d[:3] for d in diff[:3]]),
                                                    {"history": list(h), "key": k, "other": list(sw)}, expected="same set of definitions", observed=[list(d) for d in diff[:10]],
                                                    features={"len": len(h)}))
        for whole, parts in (("R6", ("R6z", "R6a")), ("R6", ("R6r",)), ("R6r", ("R6z", "R6a")), ("R7", ("R7n", "R7o")), ("R7", ("R7n", "T9")), ("R89", ("R8", "R9")), ("R89", ("R9", "R8")), ("R8", ("R8", "T14"))):
            if len(h) >= 1 and h[-1] == whole:
                sp = h[:-1] + parts
                if sp in final_items:
                    n_comm += 1
                    if final_items[sp] != items:
                        diff = sorted(set(items) ^ set(final_items[sp]))
                        k = key_of(["C16", list(h)])
                        res.violations.append(Violation(k, "I4-split-dependent", "%s vs %s: different definitions %s" % (list(h), list(sp), [d[:3] for d in diff[:3]]),
                                                        {"history": list(h), "key": k, "other": list(sp)}, expected="same set of definitions", observed=[list(d) for d in diff[:10]],
                                                        features={"len": len(h)}))
        if len(h) >= 1 and h[-1] == "R12":
            sp = h[:-1] + ("R1", "R2")
            if sp in final_items:
                n_comm += 1
                if final_items[sp] != items:
                    diff = sorted(set(items) ^ set(final_items[sp]))
                    k = key_of(["C16", list(h)])
                    res.violations.append(Violation(k, "I4-split-dependent", "%s vs %s: different definitions %s" % (list(h), list(sp), [d[:3] for d in diff[:3]]),
                                                    {"history": list(h), "key": k, "other": list(sp)}, expected="same set of definitions", observed=[list(d) for d in diff[:10]],
                                                    features={"len": len(h)}))
    res.states = len(canon_states)
    res.evaluations = len(cases_)
    res.extra.update({"histories": len(cases_), "commutation_checks": n_comm, "max_depth": max(len(c["history"]) for c in cases_)})
    res.samples = [c["history"] for c in cases_[:: max(1, len(cases_) // 5)]][:5]
    res.bound = "tier=%s: all histories over the 22-op alphabet (26 ops in the ordering sub-alphabet's space) to depth %s" % (tier, "3 (and depth 4 over a 6-op, depth 3 over the 6-op ordering sub-alphabet, depth 3 over the 5-op external-path sub-alphabet)" if tier == "quick" else "4 (and depth 5 over an 8-op, the 6-op ordering and the 5-op external-path sub-alphabets)")
    res.assumptions = ["histories are not extended past an op that returns Err (documented: the space is unspecified after an error)"]
    if not res.violations and (len(cases_) > 50 and (len(canon_states) < 30 or n_comm < 10)):   # a subject that breaks everything is reported through its violations, not as vacuity
        raise MachineryError("vacuity guard: states=%d commutation checks=%d" % (len(canon_states), n_comm))
    return res


INLINE = {"R14": {"WInner"}, "T9": {"Other"}, "T8": {"Level"}, "T6": {"Root3"}, "T3": {"Labels"}, "R1": {"WInner"}, "R12": {"WInner"}, "ROOT1": {"WInner"}}


def _late_defined(h):
    """names N for which a definitions batch defining N arrives after an op that created a type named N through a
    name hint or an inline member type (input-derived classification for the known finding)"""
    out = set()
    for j, opj in enumerate(h):
        for n in DEFINES.get(opj, ()):
            if any(n in INLINE.get(h[i], ()) for i in range(j + 1)):   # an earlier op, or the same batch
                out.add(pascal(n))
    return out


def _readded_names(h):
    cnt = {}
    for op in h:
        for n in DEFINES.get(op, ()):
            cnt[n] = cnt.get(n, 0) + 1
    return {n for n, k in cnt.items() if k > 1}


def _readds(h):
    return bool(_readded_names(h))
