"""C03 — round trip keeps declared data, stays schema-valid and is idempotent.
Same cases and pipeline run as C02 (cached); instances restricted to oracle-valid ones that contain only
declared members."""
from .. import oracle, wire, wirefam
from ..common import MachineryError
from ..runner import Result, Violation
from . import C02

INTRINSIC = [None, [], {}, False, 0, ""]


def cases(tier, seed):
    return wirefam.faithful_cases(tier)


def _num(x):
    return isinstance(x, (int, float)) and not isinstance(x, bool)


def contained(v, w, path=""):
    """prune(v) ⊑ prune(w); returns None or a description of the first loss"""
    if _num(v) and _num(w):
        return None if float(v) == float(w) and (abs(v) < 2 ** 53 or int(v) == int(w)) else "%s: %r != %r" % (path, v, w)
    if type(v) != type(w):
        return "%s: %r became %r" % (path, v, w)
    if isinstance(v, dict):
        for k, x in v.items():
            if k not in w:
                if x is None or x == [] or x == {}:
                    continue
                return "%s.%s: member dropped (was %r)" % (path, k, x)
            r = contained(x, w[k], path + "." + k)
            if r:
                return r
        return None
    if isinstance(v, list):
        if len(v) != len(w):
            return "%s: array length %d -> %d" % (path, len(v), len(w))
        for i, (a, b) in enumerate(zip(v, w)):
            r = contained(a, b, "%s[%d]" % (path, i))
            if r:
                return r
        return None
    return None if v == w else "%s: %r != %r" % (path, v, w)


def defaults_in(doc):
    """{property name -> [default values]} for every `properties` map in the document"""
    out = {}

    def walk(x):
        if isinstance(x, dict):
            props = x.get("properties")
            if isinstance(props, dict):
                for k, s in props.items():
                    if isinstance(s, dict) and "default" in s:
                        out.setdefault(k, []).append(s["default"])
            for y in x.values():
                walk(y)
        elif isinstance(x, list):
            for y in x:
                walk(y)
    walk(doc)
    return out


def added(v, w, dflts, path=""):
    """members of w absent from v must carry a schema default or an intrinsic default"""
    if isinstance(v, dict) and isinstance(w, dict):
        for k, x in w.items():
            if k not in v:
                ok = any(x == d and type(x) == type(d) for d in INTRINSIC) or any(_deq(x, d) for d in dflts.get(k, []))
                if not ok:
                    return "%s.%s: member added with non-default value %r" % (path, k, x)
            else:
                r = added(v[k], x, dflts, path + "." + k)
                if r:
                    return r
    elif isinstance(v, list) and isinstance(w, list):
        for i, (a, b) in enumerate(zip(v, w)):
            r = added(a, b, dflts, "%s[%d]" % (path, i))
            if r:
                return r
    return None


def _deq(x, d):
    """x equals default d up to filling of nested defaults (x may have more members than d)"""
    if isinstance(d, dict) and isinstance(x, dict):
        return all(k in x and _deq(x[k], dv) for k, dv in d.items())
    if _num(x) and _num(d):
        return float(x) == float(d)
    return x == d


def execute(cases_, tier, seed):
    res = Result()
    wcs = C02._run(cases_, tier)
    res.rule = ("one case = one faithful-fragment schema; each oracle-valid instance with only declared members is round-tripped twice on the "
                "compiled type; non-trivial = case with >=1 such instance whose serialisation differs textually from the input or that has an "
                "optional member; distinct by schema document")
    n_rt = 0
    for wc in wcs:
        res.states += 1
        if not wc.compiled:
            continue
        doc = wc.placed["doc"]
        orc = oracle.Oracle(doc)
        dfl = defaults_in(doc)
        tgt = wc.placed["target"]
        bad = {}
        changed = False
        for rec in wc.instances:
            if not rec["valid"] or "zz" in rec["flags"] or "mix" in rec["flags"]:
                continue
            r = rec["res"] or {}
            if not r.get("ok"):
                continue  # C02's violation
            n_rt += 1
            res.transitions += 2
            v = rec["v"]
            w = (r.get("w") or {})
            if "v" not in w:
                bad.setdefault("serialize-failed", []).append({"instance": v, "observed": w})
                continue
            w = w["v"]
            if w != v:
                changed = True
            okw = orc.valid_def(tgt, w) if tgt else orc.valid(w)
            if not okw:
                bad.setdefault("roundtrip-invalid", []).append({"instance": v, "w": w})
                continue
            c = contained(v, w)
            if c:
                bad.setdefault("roundtrip-loses", []).append({"instance": v, "w": w, "what": c})
                continue
            a = added(v, w, dfl)
            if a:
                bad.setdefault("roundtrip-adds", []).append({"instance": v, "w": w, "what": a})
                continue
            w2 = r.get("w2") or {}
            if not w2.get("ok") or (w2.get("w") or {}).get("v") != w:
                bad.setdefault("not-idempotent", []).append({"instance": v, "w": w, "w2": w2})
        if changed:
            res.nontrivial += 1
        for mode, items in bad.items():
            res.violations.append(Violation(wc.key, mode, "%s: %s for %d instance(s), e.g. %r" % (wc.id, mode, len(items), items[0]["instance"]),
                                            wc.placed, expected="w valid, prune(v) contained in prune(w), additions only defaults, roundtrip(w)=w",
                                            observed={"failing": items[:8], "ident": wc.ident},
                                            features={"shape": wc.placed.get("shape"), "ctx": wc.placed.get("ctx"), "id": wc.id,
                                                      "shape_kind": (wc.placed.get("shape") or "").split("(")[0], **(wc.placed.get("tg") or {})},
                                            items=[b["instance"] for b in items]))
    res.evaluations = res.transitions
    res.extra["roundtrips"] = n_rt
    res.samples = [{"id": wc.id, "doc": wc.placed["doc"]} for wc in wcs[:: max(1, len(wcs) // 4)]][:4]
    res.bound = "as C02 (tier=%s); instances: oracle-valid, declared members only" % tier
    res.assumptions = ["as C02", "intrinsic defaults: null, [], {}, false, 0, \"\""]
    if not res.violations and (len(cases_) > 20 and n_rt < 100):   # a subject that breaks everything is reported through its violations, not as vacuity
        raise MachineryError("vacuity guard: only %d round trips" % n_rt)
    return res
