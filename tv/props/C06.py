"""C06 — schema defaults are reproduced exactly, or rejected when the schema is added.
Space: one type kind per arm of validate_value/output_value x a default candidate set (valid incl. intrinsic and
non-intrinsic, and invalid: wrong JSON type, out of range, non-member, wrong arity, missing/extra member, duplicate set
element) x position {member default, named-definition default, add_type_with_name} x builder {off,on}.
Obs: the add result; compile; at run time from_str::<Holder>("{}"), T::default(), Holder::builder().try_into().
Oracle: jsonschema: valid(S,d) => add Ok, realised value ~= d (up to nested defaults), realised valid;
not valid(S,d) => add returns Err (not Ok, not a panic, not uncompilable code, not a different value)."""
import json

from .. import oracle, universe, wire
from ..common import MachineryError, canon, key_of
from ..runner import Result, Violation
from .C03 import _deq

INT = {"type": "integer"}
STR = {"type": "string"}
P = {"type": "object", "properties": {"x": INT, "y": STR}, "required": ["x"]}
PC = dict(P, additionalProperties=False)
PD = {"type": "object", "properties": {"a": {"type": "integer", "default": 7}, "b": STR}}
PR = {"type": "object", "properties": {"foo-bar": INT}, "required": ["foo-bar"]}
PF = {"type": "object", "properties": {"x": INT}, "required": ["x"], "additionalProperties": STR}
PFR = {"type": "object", "properties": {"foo-bar": INT, "maxAttempts": INT, "type": STR}, "required": ["foo-bar"], "additionalProperties": {"type": "boolean"}}
REC = {"type": "object", "properties": {"r": {"$ref": "#/definitions/Rec"}}}
DEFS = {"P": P, "PC": PC, "PD": PD, "PR": PR, "PF": PF, "PFR": PFR, "Rec": REC,
        "Ext": {"oneOf": [{"type": "string", "enum": ["U"]}, {"type": "object", "properties": {"N": INT}, "required": ["N"], "additionalProperties": False},
                          {"type": "object", "properties": {"S": {"type": "object", "properties": {"x": INT}, "required": ["x"]}}, "required": ["S"], "additionalProperties": False}]},
        "Int": {"oneOf": [{"type": "object", "properties": {"t": {"type": "string", "enum": ["A"]}, "x": INT, "y": STR}, "required": ["t", "x"]},
                          {"type": "object", "properties": {"t": {"type": "string", "enum": ["B"]}}, "required": ["t"]}]},
        "Adj": {"oneOf": [{"type": "object", "properties": {"t": {"type": "string", "enum": ["A"]}, "c": INT}, "required": ["t", "c"]},
                          {"type": "object", "properties": {"t": {"type": "string", "enum": ["B"]}, "c": STR}, "required": ["t", "c"]}]},
        "Unt": {"oneOf": [STR, INT, {"type": "array", "items": INT}]},
        # adjacently tagged with a variant that has no content; two open objects that typify renders as a struct of flattened Options
        "Adj3": {"oneOf": [{"type": "object", "properties": {"t": {"type": "string", "enum": ["A"]}, "c": INT}, "required": ["t", "c"]},
                           {"type": "object", "properties": {"t": {"type": "string", "enum": ["B"]}, "c": {"type": "object", "properties": {"x": INT}, "required": ["x"]}}, "required": ["t", "c"]},
                           {"type": "object", "properties": {"t": {"type": "string", "enum": ["C"]}}, "required": ["t"]}]},
        # the same taggings over CLOSED variant objects (what schemars writes under deny_unknown_fields): a default with a further member is invalid
        "AdjC": {"oneOf": [{"type": "object", "properties": {"t": {"type": "string", "enum": ["A"]}, "c": INT}, "required": ["t", "c"], "additionalProperties": False},
                           {"type": "object", "properties": {"t": {"type": "string", "enum": ["B"]}}, "required": ["t"], "additionalProperties": False}]},
        "IntC": {"oneOf": [{"type": "object", "properties": {"t": {"type": "string", "enum": ["A"]}, "x": INT}, "required": ["t", "x"], "additionalProperties": False},
                           {"type": "object", "properties": {"t": {"type": "string", "enum": ["B"]}}, "required": ["t"], "additionalProperties": False}]},
        "ExtC": {"oneOf": [{"type": "string", "enum": ["U"]}, {"type": "object", "properties": {"S": {"type": "object", "properties": {"x": INT}, "required": ["x"], "additionalProperties": False}},
                                                                "required": ["S"], "additionalProperties": False}]},
        "Flat2": {"allOf": [{"$ref": "#/definitions/P"}, {"type": "object", "properties": {"w": STR}, "required": ["w"]}]},
        "Se": {"type": "string", "enum": ["a", "b"]},
        "Te": {"type": "integer", "enum": [1, 2]},
        "Al": {"$ref": "#/definitions/P"},
        "Sm": {"type": "string", "maxLength": 2},
        "PNZ": {"type": "object", "properties": {"n": {"type": "integer", "format": "uint16", "minimum": 1}, "s": STR}, "required": ["n"]}}


def ref(n):
    return {"$ref": "#/definitions/" + n}


# kind -> (schema, valid defaults, invalid defaults, defs needed, native?)
KINDS = {
    "bool": ({"type": "boolean"}, [True, False], ["x", 1], False),
    "u8": ({"type": "integer", "format": "uint8", "minimum": 0}, [0, 255, 7], [-1, 256, "x", 1.5], False),
    "i32": ({"type": "integer", "format": "int32"}, [-5, 0], [2 ** 31, "1"], False),
    "i64": ({"type": "integer"}, [0, -7, 2 ** 40], ["x", 1.5, True], False),
    "nz32": ({"type": "integer", "format": "uint32", "minimum": 1}, [1, 5], [0, -1], False),
    "f64": ({"type": "number"}, [0, 1.5, -2.25, 3], ["x"], False),
    "f32": ({"type": "number", "format": "float"}, [1.5, 0], ["x"], False),
    "string": (STR, ["", "abc", "é\"q"], [1, True], False),
    "str_max2": (ref("Sm"), ["ab", ""], ["abc", 1], False),
    "str_max2_inline": ({"type": "string", "maxLength": 2}, ["ab", ""], ["abc", 1], False),
    "str_enum": (ref("Se"), ["a"], ["c", 1], False),
    "typed_enum": (ref("Te"), [1], [3, "1"], False),
    "opt_scalar": ({"type": ["string", "null"]}, [None, "x"], [1], False),
    "opt_struct": ({"oneOf": [ref("P"), {"type": "null"}]}, [None, {"x": 1}], [{"x": "s"}, 5], False),
    "vec": ({"type": "array", "items": INT}, [[], [1, 2]], [[1, "a"], {}, 5], False),
    "vec_struct": ({"type": "array", "items": ref("P")}, [[], [{"x": 1}]], [[{"y": "s"}]], False),
    "set": ({"type": "array", "items": INT, "uniqueItems": True}, [[], [1, 2]], [[1, 1], [1, 2, 1], ["a"]], False),
    "map_int": ({"type": "object", "additionalProperties": INT}, [{}, {"a": 1}], [{"a": "x"}, []], False),
    "map_any": ({"type": "object"}, [{}, {"a": [1]}], [5, []], False),
    "map_key": ({"type": "object", "additionalProperties": INT, "propertyNames": {"type": "string", "pattern": "^[a-z]+$"}}, [{"ab": 1}, {}], [{"AB": 1}], False),
    "map_enum_key": ({"type": "object", "additionalProperties": INT, "propertyNames": {"type": "string", "enum": ["cpu", "mem"]}}, [{"cpu": 4}, {}], [{"disk": 1}, {"cpu": "x"}], False),
    "map_patprops": ({"type": "object", "patternProperties": {"^[a-z]+$": INT}, "additionalProperties": False}, [{"cpu": 4}, {}], [{"Bad-Key": 1}], False),
    "map_key_len": ({"type": "object", "additionalProperties": INT, "propertyNames": {"type": "string", "maxLength": 3}}, [{"cpu": 4}], [{"toolong": 1}], False),
    "tuple1": ({"type": "array", "items": [INT], "minItems": 1, "maxItems": 1}, [[5]], [[], [1, 2], ["a"]], False),
    "tuple2": ({"type": "array", "items": [INT, STR], "minItems": 2, "maxItems": 2}, [[1, "a"]], [[1], ["a", 1]], False),
    "array2": ({"type": "array", "items": INT, "minItems": 2, "maxItems": 2}, [[1, 2]], [[1], [1, 2, 3]], False),
    "struct": (ref("P"), [{"x": 1}, {"x": 1, "y": "s"}], [{}, {"x": "s"}, 5], False),
    "struct_closed": (ref("PC"), [{"x": 1}], [{"x": 1, "zz": 0}], False),
    "struct_nested_defaults": (ref("PD"), [{"b": "s"}, {}, {"a": 1}], [{"a": "s"}], False),
    "struct_renamed": (ref("PR"), [{"foo-bar": 1}], [{"foo_bar": 1}], False),
    # renamed members (JSON name != field identifier) next to a flattened typed map: the keys of the default have to be told apart by JSON name
    "struct_flat_renamed": (ref("PFR"), [{"foo-bar": 1}, {"foo-bar": 1, "maxAttempts": 3, "type": "t", "jitter": True}, {"foo-bar": 2, "k": False}],
                            [{"foo-bar": 1, "k": 2}, {"maxAttempts": 3}], False),
    "struct_flat_renamed_inline": (dict(PFR), [{"foo-bar": 1, "maxAttempts": 3, "jitter": True}], [{"foo-bar": 1, "k": "s"}], False),
    "struct_flat": (ref("PF"), [{"x": 1}, {"x": 1, "k": "v"}], [{"x": 1, "k": 2}], False),
    "struct_inline_defaults": ({"type": "object", "properties": {"a": {"type": "integer", "default": 7}, "b": {"type": "boolean", "default": True},
                                                                "u": {"type": "integer", "format": "uint8", "minimum": 0, "default": 9}}},
                               [{"a": 1}, {}, {"b": False, "u": 3}], [{"a": "s"}, 5], False),
    "enum_inline_defaults": ({"oneOf": [{"type": "object", "properties": {"V": {"type": "object", "properties": {"flag": {"type": "boolean", "default": True}, "n": INT}}},
                                         "required": ["V"], "additionalProperties": False}, {"type": "string", "enum": ["U"]}]},
                             ["U", {"V": {"n": 1}}, {"V": {}}], ["Z", {"V": {"n": "s"}}], False),
    "struct_req_nullable": ({"type": "object", "properties": {"a": {"type": ["string", "null"]}, "b": INT}, "required": ["a", "b"]},
                            [{"a": None, "b": 7}, {"a": "s", "b": 1}], [{"b": 7}, {"a": None}], False),
    "enum_int_req_nullable": ({"oneOf": [{"type": "object", "properties": {"kind": {"type": "string", "enum": ["some"]}, "value": {"type": ["integer", "null"]}, "extra": INT},
                                          "required": ["kind", "value", "extra"]},
                                         {"type": "object", "properties": {"kind": {"type": "string", "enum": ["none"]}}, "required": ["kind"]}]},
                              [{"kind": "none"}, {"kind": "some", "value": None, "extra": 1}], [{"kind": "some", "extra": 1}], False),
    "enum_ext_tuple": ({"oneOf": [{"type": "object", "properties": {"T": {"type": "array", "items": [INT, STR], "minItems": 2, "maxItems": 2}}, "required": ["T"],
                                   "additionalProperties": False}, {"type": "string", "enum": ["U"]}]},
                       [{"T": [1, "a"]}, "U"], [{"T": [1]}, {"T": ["a", 1]}], False),
    "enum_adj_tuple": ({"oneOf": [{"type": "object", "properties": {"t": {"type": "string", "enum": ["A"]}, "c": {"type": "array", "items": [INT, STR], "minItems": 2, "maxItems": 2}},
                                   "required": ["t", "c"]},
                                  {"type": "object", "properties": {"t": {"type": "string", "enum": ["S"]}, "c": {"type": "object", "properties": {"x": INT}, "required": ["x"]}},
                                   "required": ["t", "c"]},
                                  {"type": "object", "properties": {"t": {"type": "string", "enum": ["U"]}}, "required": ["t"]}]},
                       [{"t": "A", "c": [1, "a"]}, {"t": "S", "c": {"x": 1}}, {"t": "U"}], [{"t": "A", "c": [1]}, {"t": "S", "c": {}}, {"t": "Z"}], False),
    "enum_unt_struct": ({"oneOf": [{"type": "object", "properties": {"p": STR}, "required": ["p"], "additionalProperties": False},
                                   {"type": "array", "items": [INT, STR], "minItems": 2, "maxItems": 2}, {"type": "null"}]},
                        [{"p": "s"}, [1, "a"], None], [{"p": 1}, [1], 5], False),
    "deny_list": ({"type": "string", "not": {"enum": ["bad", "worse"]}}, ["ok", ""], ["bad", 1], False),
    "str_pattern": ({"type": "string", "pattern": "^[a-z]+$"}, ["abc"], ["ABC", ""], False),
    # length bounds where the UTF-8 byte length and the character count of the default fall on different sides
    "str_mb": ({"type": "string", "minLength": 3, "maxLength": 3}, ["\u00e9\u00e9\u00e9", "\u65e5\u672c\u8a9e", "abc"], ["\u00e9\u00e9", "abcd", "\u00e9"], False),
    "str_min3_mb": ({"type": "string", "minLength": 3}, ["\u00e9\u00e9\u00e9"], ["\u00e9\u00e9", "\u65e5"], False),
    "str_minmax": ({"type": "string", "minLength": 2, "maxLength": 3}, ["ab", "éé"], ["a", "abcd"], False),
    "enum_ext": (ref("Ext"), ["U", {"N": 1}, {"S": {"x": 1}}], ["Z", {"N": "s"}], False),
    "enum_int": (ref("Int"), [{"t": "A", "x": 1}, {"t": "B"}, {"t": "A", "x": 1, "y": "s"}], [{"t": "Z"}, {"t": "A"}], False),
    "enum_adj": (ref("Adj"), [{"t": "A", "c": 1}, {"t": "B", "c": "s"}], [{"t": "A", "c": "s"}], False),
    "enum_adj3": (ref("Adj3"), [{"t": "C"}, {"t": "A", "c": 1}, {"t": "B", "c": {"x": 1}}], [{"t": "C", "c": 1}, {"t": "B", "c": {"x": "s"}}, {"t": "A"}], False),
    "allof_struct": (ref("Flat2"), [{"x": 1, "w": "s"}, {"x": 1, "w": "s", "y": "t"}], [{"x": 1}, {"w": "s"}, {"x": "s", "w": "s"}], False),
    "tuple_unit": ({"type": "array", "items": [{"type": "null"}, INT], "minItems": 2, "maxItems": 2}, [[None, 1]], [[0, 1], [None]], False),
    "struct_unit_member": ({"type": "object", "properties": {"u": {"type": "null"}, "n": INT}, "required": ["u", "n"]}, [{"u": None, "n": 1}], [{"u": 0, "n": 1}, {"n": 1}], False),
    "enum_adj_closed": (ref("AdjC"), [{"t": "A", "c": 1}, {"t": "B"}], [{"t": "A", "c": 1, "unit": "mm"}, {"t": "B", "c": 1}, {"t": "B", "radius": 3}], False),
    "enum_int_closed": (ref("IntC"), [{"t": "A", "x": 1}, {"t": "B"}], [{"t": "A", "x": 1, "unit": "mm"}, {"t": "B", "x": 1}], False),
    "enum_ext_closed": (ref("ExtC"), ["U", {"S": {"x": 1}}], [{"S": {"x": 1, "y": 2}}, {"S": {"x": 1}, "T": 0}, {"U": None}], False),
    # 64-bit unsigned values beyond i64::MAX in NESTED positions of a default (rendered as literals, not through the shared integer helper)
    "opt_u64": ({"type": ["integer", "null"], "format": "uint64", "minimum": 0}, [18446744073709551615, 9223372036854775808, None], [-1, "x"], False),
    "vec_u64": ({"type": "array", "items": {"type": "integer", "format": "uint64", "minimum": 0}}, [[18446744073709551615, 0], [9223372036854775807]], [[-1]], False),
    "map_u64": ({"type": "object", "additionalProperties": {"type": "integer", "format": "uint64", "minimum": 0}}, [{"k": 18446744073709551615}], [{"k": -1}], False),
    "tuple_u64": ({"type": "array", "items": [{"type": "integer", "format": "uint64", "minimum": 0}, STR], "minItems": 2, "maxItems": 2}, [[18446744073709551615, "s"]], [[-1, "s"]], False),
    "struct_u64": ({"type": "object", "properties": {"bytes": {"type": "integer", "format": "uint64", "minimum": 0}, "low": {"type": "integer", "format": "int64"}}, "required": ["bytes"]},
                   [{"bytes": 18446744073709551615, "low": -9223372036854775808}, {"bytes": 0}], [{"bytes": -1}], False),
    # nested integers of NARROW types: values beyond the element type (also beyond i64) inside array / map defaults
    "vec_i8": ({"type": "array", "items": {"type": "integer", "format": "int8"}}, [[127, -128], []], [[9223372036854775808], [128], [-129]], False),
    "map_u8": ({"type": "object", "additionalProperties": {"type": "integer", "format": "uint8", "minimum": 0}}, [{"k": 255}], [{"k": 18446744073709551615}, {"k": 256}], False),
    # NESTED integers of the NonZero types (effective minimum exactly 1, with and without a format): 0 is the one in-range-looking value they exclude
    "nz64": ({"type": "integer", "minimum": 1}, [1, 9], [0, -3], False),
    "vec_nz": ({"type": "array", "items": {"type": "integer", "minimum": 1}}, [[1, 5], []], [[0, 1], [0]], False),
    "vec_nz32": ({"type": "array", "items": {"type": "integer", "format": "uint32", "minimum": 1}}, [[1]], [[1, 0]], False),
    "map_nz": ({"type": "object", "additionalProperties": {"type": "integer", "minimum": 1}}, [{"k": 2}, {}], [{"k": 0}], False),
    "tuple_nz": ({"type": "array", "items": [{"type": "integer", "minimum": 1}, STR], "minItems": 2, "maxItems": 2}, [[3, "s"]], [[0, "s"]], False),
    "struct_nz": (ref("PNZ"), [{"n": 1}], [{"n": 0}, {"n": 0, "s": "x"}], False),
    "enum_unt": (ref("Unt"), ["s", 5, [1]], [True, {}], False),
    "alias": (ref("Al"), [{"x": 2}], [{"x": "s"}], False),
    "boxed": (ref("Rec"), [{}, {"r": {}}], [{"r": 5}], False),
    "unit": ({"type": "null"}, [None], [1], False),
    "any": ({}, [None, 1, {"a": [1]}, "s"], [], False),
    "uuid": ({"type": "string", "format": "uuid"}, ["00000000-0000-0000-0000-000000000000"], [], True),
    "date": ({"type": "string", "format": "date"}, ["2020-02-29"], [], True),
}
FLOAT_SPELLED = {"i64": [5.0], "u8": [7.0], "opt_u64": [5.0], "vec": [[80.0, 443.0]], "typed_enum": [2.0], "struct": [{"x": 1e3}], "tuple2": None, "map_int": [{"a": 2.0}], "nz32": [3.0]}
FLOAT_SPELLED = {k: v for k, v in FLOAT_SPELLED.items() if v}
QUICK_KINDS = ["bool", "u8", "i64", "nz32", "f64", "string", "str_max2", "str_enum", "opt_scalar", "opt_struct", "vec", "set", "map_int", "map_any", "map_key", "map_enum_key", "map_patprops", "map_key_len",
               "tuple1", "tuple2", "struct", "struct_closed", "struct_renamed", "alias", "struct_req_nullable", "struct_nested_defaults", "struct_inline_defaults", "enum_inline_defaults", "struct_flat", "struct_flat_renamed", "struct_flat_renamed_inline", "enum_ext", "enum_int", "opt_u64", "vec_i8", "map_u8", "vec_u64", "map_u64", "tuple_u64", "struct_u64", "enum_adj", "enum_adj_closed", "enum_int_closed", "enum_ext_closed", "enum_adj3", "allof_struct", "tuple_unit", "struct_unit_member", "enum_unt", "enum_ext_tuple", "enum_adj_tuple", "enum_unt_struct", "deny_list", "str_pattern", "str_mb", "str_min3_mb", "str_minmax",
               "typed_enum", "boxed", "unit", "uuid", "nz64", "vec_nz", "vec_nz32", "map_nz", "tuple_nz", "struct_nz"]


def with_default(schema, d):
    if "$ref" in schema and len(schema) == 1:
        return {"default": d, "allOf": [schema]}
    return dict(schema, default=d)


def cases(tier, seed):
    out = []
    kinds = QUICK_KINDS if tier == "quick" else list(KINDS)
    for k in kinds:
        schema, good, bad, native = KINDS[k]
        cands = [(d, True, "hand") for d in good] + [(d, False, "hand") for d in bad]
        if tier == "quick":
            cands = cands[:2] + [c for c in cands if not c[1]][:2]
            cands = [c for i, c in enumerate(cands) if c not in cands[:i]]
        # integral values spelled as floats (5.0, 1e3) at integer positions: valid JSON Schema integers; typify may reject them or must reproduce them
        cands += [(d, True, "float-spelled") for d in FLOAT_SPELLED.get(k, [])]
        # candidates derived from the kind's instance universe (valid and invalid by the oracle), beyond the hand-listed ones
        seen_c = {canon(d) for d, _, _ in cands} | {canon(d) for d in good + bad}
        orc = oracle.Oracle({"allOf": [schema], "definitions": DEFS})
        uni, _ = universe.universe({"definitions": dict(DEFS, K__=schema)}, "K__", depth=2, limit=80)
        nv = ni = 0
        cap = 2 if tier == "quick" else 12
        for v, flags in uni:
            if canon(v) in seen_c:
                continue
            ok = orc.valid(v)
            if native and not ok:
                continue   # native types: invalid defaults are not demanded to fail
            if ok and nv < cap:
                nv += 1
            elif not ok and ni < cap:
                ni += 1
            else:
                continue
            seen_c.add(canon(v))
            cands.append((v, ok, "universe+zz" if "zz" in flags else "universe"))
        for d, valid, src in cands:
            poss = ("member",) if tier == "quick" else (("member", "definition", "named_type") if src == "hand" else ("member", "definition"))
            if src == "hand":
                poss += ("variant_member",)   # the member of a STRUCT VARIANT that follows a unit and a newtype variant
            for pos in poss:
                for builder in ((True,) if (tier == "quick" or src != "hand") else (False, True)):
                    sd = with_default(schema, d)
                    defs = dict(DEFS)
                    settings = {"struct_builder": builder}
                    c = {"kind": k, "default": d, "valid": valid, "pos": pos, "builder": builder, "settings": settings, "member_schema": schema, "src": src}
                    if pos == "member":
                        defs["Holder"] = {"type": "object", "properties": {"p": sd, "q": INT}}
                        c["doc"] = {"definitions": defs}
                        c["ops"] = None
                    elif pos == "variant_member":
                        defs["Holder"] = {"oneOf": [{"type": "string", "enum": ["U"]},
                                                    {"type": "object", "properties": {"N": INT}, "required": ["N"], "additionalProperties": False},
                                                    {"type": "object", "properties": {"V": {"type": "object", "properties": {"p": sd, "q": INT}}}, "required": ["V"], "additionalProperties": False}]}
                        c["doc"] = {"definitions": defs}
                        c["ops"] = None
                    elif pos == "definition":
                        defs["T"] = sd
                        c["doc"] = {"definitions": defs}
                        c["ops"] = None
                    else:
                        c["doc"] = {"definitions": defs}
                        c["ops"] = [{"refs": defs}, {"type": dict(sd, title="T") if "allOf" not in sd else dict(sd, title="T"), "hint": "T"}]
                    c["id"] = "%s=%s@%s%s" % (k, json.dumps(d), pos, "#b" if builder else "")
                    c["key"] = key_of(["C06", c["id"], c["doc"], c["ops"]])
                    out.append(c)
    out += selfref_cases(tier)
    return out


def selfref_cases(tier):
    """the defaulted member is itself the recursive reference (rendered Box<Holder>): only INVALID defaults are candidates, a valid one
    would denote an infinite value"""
    out = []
    for form in ("sibling", "allof"):
        for req in (False,):   # the default of a REQUIRED member is never honoured (nor looked at): outside the property
            for d in (None, 5, "x", [], {"q": "s"}):
                ref_h = {"$ref": "#/definitions/Holder"}
                m = dict(ref_h, default=d) if form == "sibling" else {"default": d, "allOf": [ref_h]}
                defs = dict(DEFS)
                defs["Holder"] = {"type": "object", "properties": {"p": m, "q": INT}, "required": ["q"] + (["p"] if req else [])}
                c = {"kind": "self_boxed", "default": d, "valid": False, "pos": "member", "builder": True, "settings": {"struct_builder": True},
                     "member_schema": ref_h, "src": "hand", "doc": {"definitions": defs}, "ops": None}
                c["id"] = "self_boxed[%s%s]=%s@member#b" % (form, ",req" if req else "", json.dumps(d))
                c["key"] = key_of(["C06", c["id"], c["doc"], c["ops"]])
                out.append(c)
    return out


def decorate(wc, a):
    """probe code appended to the case file: Holder from {}, Holder::builder(), T::default()"""
    p = wc.placed
    root = (a.get("scan") or {}).get("mods", {}).get("", [])
    has_default = {it["self_ty"].replace(" ", "") for it in root if it.get("kind") == "impl" and (it.get("trait") or "").replace(" ", "") in
                   ("::std::default::Default", "Default")}
    arms = []
    if p["pos"] == "member":
        arms.append('"serde" => Some(vs::guard(|| match serde_json::from_str::<Holder>("{}") { Ok(h) => json!({"ok": true, "w": serde_json::to_value(&h).unwrap()}), '
                    'Err(e) => json!({"ok": false, "err": e.to_string()}) })),')
        if p["builder"]:
            arms.append('"builder" => Some(vs::guard(|| { let r: Result<Holder, _> = Holder::builder().try_into(); match r { '
                        'Ok(h) => json!({"ok": true, "w": serde_json::to_value(&h).unwrap()}), Err(e) => json!({"ok": false, "err": e.to_string()}) } })),')
        if "Holder" in has_default:
            arms.append('"struct_default" => Some(vs::guard(|| json!({"ok": true, "w": serde_json::to_value(&Holder::default()).unwrap()}))),')
    elif p["pos"] == "variant_member":
        arms.append('"serde" => Some(vs::guard(|| match serde_json::from_str::<Holder>("{\\"V\\":{}}") { Ok(h) => json!({"ok": true, "w": serde_json::to_value(&h).unwrap()["V"].clone()}), '
                    'Err(e) => json!({"ok": false, "err": e.to_string()}) })),')
    else:
        if "T" in has_default:
            arms.append('"type_default" => Some(vs::guard(|| json!({"ok": true, "w": serde_json::to_value(&T::default()).unwrap()}))),')
    code = "    pub fn probe(kind: &str, arg: &str) -> Option<Value> {\n        match kind {\n            %s\n            _ => None,\n        }\n    }\n" % "\n            ".join(arms)
    wc.extra_obs["probes"] = [x.split('"')[1] for x in arms]
    return {"extra": code}


ABSENT = object()


def execute(cases_, tier, seed):
    res = Result()
    placed = [{"id": c["id"], "doc": c["doc"], "target": None, "settings": c["settings"], "ops": c["ops"], "pos": c["pos"], "builder": c["builder"]} for c in cases_]
    wcs = wire_run_with_probes(placed, tier, len(cases_) > 1)
    res.rule = ("one case = (type kind, default value, position, builder); non-trivial = every case (each has a definite expected outcome); "
                "distinct by (document, ops, settings)")
    hist = {}
    n_real = 0
    for c, (wc, probes) in zip(cases_, wcs):
        res.states += 1
        res.transitions += 1
        res.nontrivial += 1
        feats = {"kind": c["kind"], "pos": c["pos"], "builder": c["builder"], "valid": c["valid"], "default": json.dumps(c["default"]), "src": c.get("src")}
        ops = (wc.answer or {}).get("ops") or []
        bad_op = next((o for o in ops if o.get("status") in ("err", "panic")), None)
        aborted = (wc.answer or {}).get("abort")
        outcome = "abort" if aborted else (bad_op["status"] if bad_op else "ok")
        if outcome == "ok" and (not wc.render or wc.render.get("status") != "ok"):
            outcome = "render-panic"
        elif outcome == "ok" and wc.compiled is False:
            outcome = "uncompilable"
        hist[(c["valid"], outcome)] = hist.get((c["valid"], outcome), 0) + 1
        if not c["valid"]:
            if outcome != "err":
                # only where the default is honoured: definition-level defaults on types without a Default impl are dropped, not honoured
                if outcome == "ok" and c["pos"] not in ("member", "variant_member") and not probes:
                    continue
                detail = (wc.render or {}).get("msg") if outcome == "render-panic" else (wc.errors[:2] if outcome == "uncompilable" else (bad_op or {}).get("msg"))
                res.violations.append(Violation(c["key"], "invalid-default:" + outcome, "%s: default %s is not valid for its schema but add gives %s" % (c["id"], json.dumps(c["default"]), outcome),
                                                c, expected="Err when the schema is added", observed={"outcome": outcome, "detail": detail}, features=feats, items=[c["default"]]))
            continue
        if outcome == "err" and c.get("src") == "float-spelled":
            hist[("float-spelled", "err")] = hist.get(("float-spelled", "err"), 0) + 1
            continue   # rejecting the float spelling of an integer is the other allowed outcome
        if outcome == "err" and c.get("src") == "universe+zz":
            hist[("unrepresentable", "err")] = hist.get(("unrepresentable", "err"), 0) + 1
            continue   # a default carrying undeclared members cannot be reproduced exactly by the struct: rejecting it is the other allowed outcome
        if outcome != "ok":
            detail = (wc.render or {}).get("msg") if outcome == "render-panic" else (wc.errors[:2] if outcome == "uncompilable" else (bad_op or {}).get("msg"))
            res.violations.append(Violation(c["key"], "valid-default:" + outcome, "%s: valid default %s: %s (%s)" % (c["id"], json.dumps(c["default"]), outcome, str(detail)[:140]),
                                            c, expected="Ok and reproduced", observed={"outcome": outcome, "detail": detail}, features=feats, items=[c["default"]]))
            continue
        # realised values
        orc = oracle.Oracle({"allOf": [c["member_schema"]], "definitions": DEFS})
        for route, r in probes.items():
            res.transitions += 1
            n_real += 1
            if not (r or {}).get("ok"):
                res.violations.append(Violation(c["key"], "default-route-fails:" + route, "%s: %s fails: %s" % (c["id"], route, r), c, expected=c["default"], observed=r,
                                                features=dict(feats, route=route), items=[c["default"]]))
                continue
            w = r["w"]
            if route in ("serde", "builder", "struct_default"):
                real = w.get("p", ABSENT) if isinstance(w, dict) else ABSENT
            else:
                real = w
            d = c["default"]
            if real is ABSENT:
                ok = d is None or d == [] or d == {}
                real_show = "<absent>"
            else:
                ok = _deq(real, d) and (type(real) == type(d) or (isinstance(real, (int, float)) and isinstance(d, (int, float))))
                if ok and not isinstance(d, bool) and isinstance(real, bool):
                    ok = False
                real_show = real
                if ok and not orc.valid(real):
                    ok = False
            if not ok:
                res.violations.append(Violation(c["key"], "default-mismatch:" + route, "%s: %s realises %s, schema default is %s" % (c["id"], route, json.dumps(real_show), json.dumps(d)),
                                                c, expected=d, observed=real_show, features=dict(feats, route=route), items=[c["default"]]))
    res.evaluations = res.transitions
    res.extra.update({"outcome_histogram": {"valid=%s,%s" % k: v for k, v in hist.items()}, "realised_defaults_checked": n_real})
    res.samples = [{"id": c["id"], "member_schema": c["member_schema"], "default": c["default"]} for c in cases_[:: max(1, len(cases_) // 5)]][:5]
    res.bound = "tier=%s: %d kinds x candidate defaults x positions %s x builder %s" % (tier, len(QUICK_KINDS if tier == "quick" else KINDS),
                                                                                      "{member, variant member}" if tier == "quick" else "{member, variant member, definition, add_type_with_name}",
                                                                                      "{on}" if tier == "quick" else "{off,on}")
    res.assumptions = ["invalid defaults of native types (uuid, date) are not demanded to fail (validation documented as deferred)",
                       "an absent member after serialisation stands for null / [] / {} (skip_serializing_if)"]
    if not res.violations and (len(cases_) > 20 and n_real < 40):   # a subject that breaks everything is reported through its violations, not as vacuity
        raise MachineryError("vacuity guard: only %d realised defaults" % n_real)
    return res


def wire_run_with_probes(placed, tier, cache):
    wcs = wire.run(placed, {}, "c06_" + tier if cache else "replay_c06", mode="build", need_target=False, decorate=decorate,
                   use_cache=cache, instances=False)
    return [(wc, wc.extra_obs.get("probe_results", {})) for wc in wcs]
