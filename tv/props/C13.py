"""C13 — x-rust-type substitution follows the documented crate/version policy.
Decision table, full product (thorough) or deviation-bounded (quick): crate configuration x unknown-crate policy x
(requirement, version) pairs straddling every semver operator x rename x parameters x well-formedness x use site.
Oracle: a reference decision function written from the README; 'satisfies' is a hand-written expected column,
cross-checked against the semver crate evaluated by the adapter independently of typify's code path."""
import itertools

from .. import adapter
from ..common import MachineryError, key_of
from ..runner import Result, Violation

T, F = True, False
PAIRS = [
    ("^1.2.3", "1.2.3", T), ("^1.2.3", "1.2.4", T), ("^1.2.3", "1.3.0", T), ("^1.2.3", "1.2.2", F), ("^1.2.3", "2.0.0", F), ("^1.2.3", "0.9.9", F),
    ("1.2.3", "1.2.3", T), ("1.2.3", "1.9.0", T), ("1.2.3", "2.0.0", F), ("1.2.3", "1.2.2", F), ("1.2", "1.2.0", T), ("1.2", "1.1.9", F),
    ("1.2", "1.9.9", T), ("1", "1.0.0", T), ("1", "2.0.0", F), ("1", "0.9.9", F),
    ("^0.2.3", "0.2.3", T), ("^0.2.3", "0.2.9", T), ("^0.2.3", "0.3.0", F), ("^0.2.3", "0.2.2", F), ("0.2.2", "0.2.0", F), ("0.1.0", "0.1.1", T),
    ("^0.0.3", "0.0.3", T), ("^0.0.3", "0.0.4", F), ("^0.0.3", "0.0.2", F), ("0.0", "0.0.9", T), ("0.0", "0.1.0", F),
    ("~1.2.3", "1.2.3", T), ("~1.2.3", "1.2.9", T), ("~1.2.3", "1.3.0", F), ("~1.2", "1.2.0", T), ("~1.2", "1.3.0", F), ("~1", "1.9.0", T), ("~1", "2.0.0", F),
    ("=1.2.3", "1.2.3", T), ("=1.2.3", "1.2.4", F), ("=1.2", "1.2.9", T), ("=1.2", "1.3.0", F),
    (">1.2.3", "1.2.4", T), (">1.2.3", "1.2.3", F), (">=1.2.3", "1.2.3", T), (">=1.2.3", "1.2.2", F),
    ("<1.2.3", "1.2.2", T), ("<1.2.3", "1.2.3", F), ("<=1.2.3", "1.2.3", T), ("<=1.2.3", "1.2.4", F),
    ("*", "0.0.1", T), ("*", "9.9.9", T), ("1.*", "1.5.0", T), ("1.*", "2.0.0", F), ("1.2.*", "1.2.7", T), ("1.2.*", "1.3.0", F),
    (">=0.1.0, <1.0.0", "0.5.0", T), (">=0.1.0, <1.0.0", "1.0.0", F), (">=0.1.0, <1.0.0", "0.0.9", F), (">=1.2.0, <1.5.0", "1.4.9", T),
    ("^1.2.0", "1.3.0-rc.1", F), ("1.0.0-alpha", "1.0.0-alpha.1", T), ("1.0.0-alpha", "1.0.0", T), ("1.0.0-beta", "1.0.0-alpha", F),
    ("^1.0.0", "1.0.0-alpha", F), (">=1.0.0-alpha", "1.0.1-beta", F),
    # the configured version is a PRERELEASE (it only satisfies comparators that name a prerelease of the same major.minor.patch) or carries build metadata
    ("=1.2.3-beta.1", "1.2.3-beta.1", T), ("<1.2.3-rc.1", "1.2.3-beta.1", T), (">=1.2.3-beta.2", "1.2.3-beta.1", F), ("~1.2", "1.2.3-beta.1", F),
    (">=1.0.0", "1.0.0-rc.1", F), ("^1.2.3-alpha", "1.2.3-beta.1", T), ("=1.2.3", "1.2.3+build.5", T), ("^1.2.3", "1.2.4+exp.sha.5114f85", T),
]
PRE = {p for p in PAIRS if "-" in p[1] or "+" in p[1]}
QUICK_PAIRS = [p for i, p in enumerate(PAIRS) if i % 3 == 0 or p[0] in ("^1.2.0", "0.2.2", "0.1.0") or p in PRE]
CRATE = "ext-crate"
IDENT = "ext_crate"
CFGS = ["absent", "any", "never", "version"]
POLICIES = ["generate", "allow", "deny"]
RENAMES = [None, "other", "other-crate"]
PARAMS = ["0", "1i", "1r", "2", "1x", "1c", "1s"]
SITES = ["member", "def_same", "def_diff", "def_suffix", "map_key", "vec", "inline", "allof1", "allof2"]
MALFORMED = ["no_path", "no_version", "no_crate", "bad_req", "empty_req", "path_no_sep", "path_other_crate", "path_prefix_crate", "path_prefix_crate_us", "path_bare_crate", "path_hyphen", "ext_string", "ext_number",
             "ext_array", "params_string"]
MARKER = "marker_zz9"


# the part of the path after the crate identifier: the crate identifier may RECUR there, as a whole segment or inside one; a rename
# concerns the leading segment only
TAILS = {None: "sub::Thing", "seg": IDENT + "::Thing", "within": "my_" + IDENT + "_sub::Thing"}


def ext_value(req, params, mal=None, tail=None):
    x = {"crate": CRATE, "version": req, "path": IDENT + "::" + TAILS[tail]}
    if params == "1i":
        x["parameters"] = [{"type": "string"}]
    elif params == "1r":
        x["parameters"] = [{"$ref": "#/definitions/Gizmo"}]
    elif params == "2":
        x["parameters"] = [{"$ref": "#/definitions/Gizmo"}, {"type": "integer", "format": "uint8", "minimum": 0}]
    elif params == "1x":
        # the README's own example: the parameter is a referenced schema that itself carries the extension (same crate, same requirement)
        x["parameters"] = [{"$ref": "#/definitions/GizmoX"}]
    elif params == "1c":
        # the parameter names a definition that refers back to the using struct: a substituted type is opaque, so no cycle exists and
        # the parameter must be applied as declared (no Box)
        x["parameters"] = [{"$ref": "#/definitions/GizmoC"}]
    elif params == "1s":
        x["parameters"] = [{"$ref": "#/definitions/User"}]   # the using struct itself
    if mal == "no_path":
        del x["path"]
    elif mal == "no_version":
        del x["version"]
    elif mal == "no_crate":
        del x["crate"]
    elif mal == "bad_req":
        x["version"] = "not-a-version"
    elif mal == "empty_req":
        x["version"] = ""
    elif mal == "path_no_sep":
        x["path"] = "Thing"
    elif mal == "path_other_crate":
        x["path"] = "elsewhere::Thing"
    elif mal == "path_prefix_crate":
        x["path"] = IDENT + "ra::sub::Thing"      # the first segment merely BEGINS with the crate identifier
    elif mal == "path_prefix_crate_us":
        x["path"] = IDENT + "_types::Thing"
    elif mal == "path_bare_crate":
        x["path"] = IDENT                         # nothing but the crate identifier
    elif mal == "path_hyphen":
        x["path"] = CRATE + "::sub::Thing"
    elif mal == "ext_string":
        x = "ext_crate::sub::Thing"
    elif mal == "ext_number":
        x = 5
    elif mal == "ext_array":
        x = [x]
    elif mal == "params_string":
        x["parameters"] = "T"
    return x


def build_doc(site, req, params, mal, params2=None, tail=None):
    thing = {"type": "object", "properties": {MARKER: {"type": "string"}}, "required": [MARKER], "x-rust-type": ext_value(req, params, mal, tail)}
    defs = {"Gizmo": {"type": "object", "properties": {"g": {"type": "integer"}}},
            "GizmoC": {"type": "object", "properties": {"back": {"$ref": "#/definitions/User"}, "n": {"type": "integer"}}},
            "GizmoX": {"type": "object", "properties": {"gx": {"type": "integer"}},
                       "x-rust-type": {"crate": CRATE, "version": req, "path": IDENT + "::GizmoX"}},
            # two more extensions naming the SAME crate whose requirements no release satisfies / every release satisfies; they sort before and
            # after everything else: each extension's decision is its own (a declined or accepted one says nothing about the others)
            "Aardvark": {"type": "object", "properties": {"aa": {"type": "integer"}}, "x-rust-type": {"crate": CRATE, "version": ">=999.0.0", "path": IDENT + "::Aardvark"}},
            "Zebra": {"type": "object", "properties": {"zz": {"type": "integer"}}, "x-rust-type": {"crate": CRATE, "version": ">=0.0.0", "path": IDENT + "::Zebra"}},
            "UsesBoth": {"type": "object", "properties": {"a": {"$ref": "#/definitions/Aardvark"}, "z": {"$ref": "#/definitions/Zebra"}}}}
    if site == "member":
        defs["Thing"] = thing
        defs["User"] = {"type": "object", "properties": {"m": {"$ref": "#/definitions/Thing"}}, "required": ["m"]}
    elif site == "def_same":
        defs["Thing"] = thing
        defs["User"] = {"type": "object", "properties": {"m": {"$ref": "#/definitions/Thing"}}, "required": ["m"]}
    elif site == "def_suffix":
        # the definition's name (Thing) is a proper SUFFIX of the external type's last segment (BigThing): the names differ
        thing = dict(thing)
        thing["x-rust-type"] = dict(thing["x-rust-type"], path=thing["x-rust-type"].get("path", "").replace("::Thing", "::BigThing")) if isinstance(thing["x-rust-type"], dict) else thing["x-rust-type"]
        defs["Thing"] = thing
        defs["User"] = {"type": "object", "properties": {"m": {"$ref": "#/definitions/Thing"}}, "required": ["m"]}
    elif site == "map_key":
        # the extension sits on an UNTYPED propertyNames schema: the key type of a map (string-like by position)
        key = {"x-rust-type": thing["x-rust-type"]}
        defs["User"] = {"type": "object", "properties": {"m": {"type": "object", "additionalProperties": {"type": "integer"}, "propertyNames": key}}, "required": ["m"]}
    elif site == "def_diff":
        defs["Other"] = thing
        defs["User"] = {"type": "object", "properties": {"m": {"$ref": "#/definitions/Other"}}, "required": ["m"]}
    elif site == "vec":
        defs["Thing"] = thing
        defs["User"] = {"type": "object", "properties": {"m": {"type": "array", "items": {"$ref": "#/definitions/Thing"}}}, "required": ["m"]}
    elif site == "inline":
        defs["User"] = {"type": "object", "properties": {"m": thing}, "required": ["m"]}
    elif site in ("allof1", "allof2"):
        # the definition is reached through an allOf whose other members add no constraint (annotation wrappers, a redundant type)
        defs["Thing"] = thing
        wrap = [{"$ref": "#/definitions/Thing"}] + ([{"type": "object"}] if site == "allof2" else [])
        defs["User"] = {"type": "object", "properties": {"m": {"description": "wrapped", "allOf": wrap}}, "required": ["m"]}
    elif site in ("inline2", "def_inline", "vec_inline"):
        # the same external path used twice in one type space with DIFFERENT parameter lists
        thing2 = {"type": "object", "properties": {MARKER: {"type": "string"}}, "required": [MARKER], "x-rust-type": ext_value(req, params2, None)}
        if site == "inline2":
            first = thing
        elif site == "def_inline":
            defs["Thing"] = thing
            first = {"$ref": "#/definitions/Thing"}
        else:
            first = {"type": "array", "items": thing}
        defs["User"] = {"type": "object", "properties": {"m": first, "n": thing2}, "required": ["m", "n"]}
    return {"definitions": defs}


def mk(cfg, policy, pair, rename, params, site, mal=None, params2=None, tail=None):
    req, ver, sat = pair
    settings = {"unknown_crates": policy}
    if cfg != "absent":
        spec = {"version": {"any": "*", "never": "!", "version": ver}[cfg]}
        if rename:
            spec["rename"] = rename
        settings["crates"] = {CRATE: spec}
    c = {"family": "table", "cfg": cfg, "policy": policy, "req": req, "ver": ver, "sat": sat, "rename": rename if cfg != "absent" else None,
         "params": params, "params2": params2, "site": site, "mal": mal, "tail": tail, "settings": settings, "doc": build_doc(site, req, params, mal, params2, tail)}
    c["key"] = key_of([c["settings"], c["doc"]])
    return c


def cases(tier, seed):
    out = {}

    def add(c):
        out[c["key"]] = c
    pairs = PAIRS if tier != "quick" else QUICK_PAIRS
    for cfg in CFGS:
        for policy in POLICIES:
            for pair in pairs:
                for rename in (RENAMES if cfg != "absent" else [None]):
                    for params in PARAMS:
                        for site in SITES:
                            add(mk(cfg, policy, pair, rename, params, site))
    # two uses of one path with different parameter lists (every ordered pair of parameter forms)
    for cfg in ("any", "never", "absent"):
        for policy in ("allow", "deny"):
            for rename in ((None, "other") if cfg != "absent" else (None,)):
                for pa in PARAMS:
                    for pb in PARAMS:
                        if pa != pb:
                            for site in ("inline2", "def_inline", "vec_inline"):
                                add(mk(cfg, policy, ("^1.2.3", "1.2.4", T), rename, pa, site, None, pb))
    # the crate identifier recurring later in the path (whole segment / inside a segment) under every rename
    for tail in ("seg", "within"):
        for cfg in CFGS:
            for policy in POLICIES:
                for pair in (("^1.2.3", "1.2.4", T), ("^1.2.3", "2.0.0", F)):
                    for rename in (RENAMES if cfg != "absent" else [None]):
                        for params in ("0", "1x"):
                            for site in ("member", "def_diff", "def_suffix", "inline", "vec"):
                                add(mk(cfg, policy, pair, rename, params, site, None, None, tail))
    # malformed extensions: generated from the schema whatever the settings
    for mal in MALFORMED:
        for cfg in CFGS:
            for policy in POLICIES:
                for site in (SITES if tier != "quick" else ["member", "def_diff", "def_suffix", "map_key", "inline"]):
                    add(mk(cfg, policy, ("^1.2.3", "1.2.4", T), None, "0", site, mal))
    return list(out.values())


def expected_path(c, which="params"):
    first = (c["rename"].replace("-", "_") if c["rename"] else IDENT)
    tail = TAILS[c.get("tail")]
    p = "::" + first + "::" + (tail.replace("::Thing", "::BigThing") if c.get("site") == "def_suffix" else tail)
    c = dict(c, params=c[which])
    if c["params"] == "1i":
        p += "<::std::string::String>"
    elif c["params"] == "1r":
        p += "<Gizmo>"
    elif c["params"] == "2":
        p += "<Gizmo,u8>"
    elif c["params"] == "1x":
        p += "<::%s::GizmoX>" % first
    elif c["params"] == "1c":
        p += "<GizmoC>"
    elif c["params"] == "1s":
        p += "<User>"
    return p


def decide(c):
    """reference decision function (README 'Using types from other crates' + the statement)"""
    if c["mal"]:
        return False
    if c["cfg"] == "any":
        return True
    if c["cfg"] == "version":
        return c["sat"]
    if c["cfg"] == "never":
        return False
    return c["policy"] == "allow"


def execute(cases_, tier, seed):
    res = Result()
    res.rule = ("one case = one (settings, schema document) cell of the decision table; non-trivial = every cell (each has a definite expected "
                "outcome); distinct by (settings, document)")
    # 1. semver cross-check of the hand-written table (machinery guard)
    sj = [{"id": "sv%d" % i, "kind": "semver", "req": r, "ver": v} for i, (r, v, _) in enumerate(PAIRS)]
    sa = adapter.run_jobs(sj)
    for i, (r, v, want) in enumerate(PAIRS):
        got = sa["sv%d" % i]
        if not got["req_ok"] or not got["ver_ok"] or got["matches"] != want:
            raise MachineryError("semver table disagrees with the semver crate on (%s, %s): table=%s crate=%s" % (r, v, want, got))
    jobs = [{"id": c["key"], "settings": c["settings"], "ops": [{"root": c["doc"]}], "want": ["api", "scan"],
             "locate": [n for n in ("User", "Thing", "Other") if n in c["doc"]["definitions"]]} for c in cases_]
    ans = adapter.run_jobs(jobs)
    outcomes = {}
    for c in cases_:
        a = ans[c["key"]]
        res.states += 1
        res.transitions += 1
        res.nontrivial += 1
        feats = {k: c.get(k) for k in ("cfg", "policy", "req", "ver", "rename", "params", "params2", "site", "mal", "tail")}
        op = (a.get("ops") or [{}])[0]
        if a.get("abort") or op.get("status") != "ok" or (a.get("render") or {}).get("status") != "ok":
            res.violations.append(Violation(c["key"], "ingest-failed", "x-rust-type case failed to ingest/render: %s" % (op,), c,
                                            expected="ok", observed={"op": op, "render": a.get("render")}, features=feats))
            continue
        types = {t["id"]: t for t in a["api"]["types"]}
        user = types.get(a["locate"]["User"].get("id"))
        mt = types.get(user["props"][0]["type_id"]) if user and user.get("props") else None
        if mt is None:
            raise MachineryError("cannot find User.m in %s" % c["key"])
        # resolve through vec / newtype to what stands for the schema
        chain = []
        t = mt
        for _ in range(4):
            chain.append(t["kind"])
            if t["kind"] == "vec":
                t = types[t["child"]]
            elif t["kind"] == "map" and c["site"] == "map_key":
                t = types[t["key"]]
            elif t["kind"] == "newtype":
                t = types[t["inner"]]
            else:
                break
        final = t["ident"].replace(" ", "").replace(",>", ">") if t["kind"] == "builtin" else t["kind"] + ":" + t.get("name", "")
        root_items = (a.get("scan") or {}).get("mods", {}).get("", [])
        structural = [it["name"] for it in root_items if it.get("kind") == "struct" and it["body"]["style"] == "named"
                      and any(f["name"] == MARKER for f in it["body"]["fields"])]
        want_sub = decide(c)
        obs = {"member_type_chain": chain, "stands_for": final, "structs_with_marker": structural,
               "member_ident": mt["ident"].replace(" ", "")}
        outcomes[(want_sub, bool(structural))] = outcomes.get((want_sub, bool(structural)), 0) + 1
        if want_sub:
            exp = expected_path(c)
            probs = []
            if final != exp:
                probs.append("stands for %s, expected %s" % (final, exp))
            if structural:
                probs.append("schema structure generated in %s" % structural)
            # 'directly, or through a transparent newtype named after the definition when the names differ':
            # a wrapper is only acceptable for the definition whose name differs from the path's last segment
            named_after = {"def_diff": "Other", "def_suffix": "Thing"}.get(c["site"])
            if "newtype" in chain and (named_after is None or mt["ident"].replace(" ", "") != named_after):
                probs.append("unexpected newtype wrapper %s" % mt["ident"])
            # ... and where the names differ the definition keeps a type of its own name (the transparent newtype), so that code naming it still compiles
            if named_after and not c["params"] != "0" and "newtype" not in chain:
                probs.append("no type named after the definition %s (member typed %s)" % (named_after, mt["ident"]))
            if probs:
                res.violations.append(Violation(c["key"], "not-substituted" if final != exp and structural else "wrong-substitution",
                                                "; ".join(probs), c, expected={"path": exp, "no_structure": True}, observed=obs, features=feats))
            if c.get("params2") and user and len(user["props"]) > 1:
                t2 = types.get(user["props"][1]["type_id"])
                for _ in range(4):
                    if t2["kind"] == "vec":
                        t2 = types[t2["child"]]
                    elif t2["kind"] == "newtype":
                        t2 = types[t2["inner"]]
                    else:
                        break
                final2 = t2["ident"].replace(" ", "").replace(",>", ">") if t2["kind"] == "builtin" else t2["kind"] + ":" + t2.get("name", "")
                exp2 = expected_path(c, "params2")
                if final2 != exp2:
                    res.violations.append(Violation(c["key"], "wrong-substitution", "second use of the path stands for %s, expected %s (first use: %s)" % (final2, exp2, final), c,
                                                    expected={"path": exp2}, observed=dict(obs, second=final2), features=feats))
        else:
            probs = []
            if c["site"] == "map_key":
                if final != "::std::string::String" and not final.startswith("string:"):
                    probs.append("map key stands for %s, expected the plain string the schema describes" % final)
            elif not structural:
                probs.append("schema structure not generated")
            if final.startswith("::" + IDENT) or final.startswith("::other"):
                probs.append("external path %s used" % final)
            if probs:
                res.violations.append(Violation(c["key"], "substituted-against-policy", "; ".join(probs), c,
                                                expected="generated from the schema", observed=obs, features=feats))
    res.evaluations = res.transitions
    res.extra["outcome_histogram"] = {"expect_sub=%s,structure_generated=%s" % k: v for k, v in outcomes.items()}
    res.extra["semver_pairs_crosschecked"] = len(PAIRS)
    res.samples = [{"settings": c["settings"], "ext": c["doc"]["definitions"].get("Thing", c["doc"]["definitions"].get("Other", {})).get("x-rust-type"),
                    "site": c["site"]} for c in cases_[:: max(1, len(cases_) // 4)]][:4]
    res.bound = ("tier=%s: %s of cfg(4) x policy(3) x %d semver pairs x rename(3) x params(7) x site(9); recurring-crate-identifier path tails(2) x cfg x policy x rename x params(2) x site(5); malformed(15) x cfg x policy x sites"
                 % (tier, "full product", len(PAIRS if tier != "quick" else QUICK_PAIRS)))
    res.assumptions = ["expected semver column hand-written from Cargo's documented semantics, cross-checked against the semver crate (disagreement = exit 2)"]
    if not res.violations and (len(outcomes) < 2 and len(cases_) > 10):   # a subject that breaks everything is reported through its violations, not as vacuity
        raise MachineryError("vacuity guard: a single outcome class")
    return res
