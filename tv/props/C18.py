"""C18 — the builder interface constructs exactly the valid structs (operation sequences on compiled code).
Space: structs of 1..3 members, each member (type from a menu incl. constrained newtype, enum, Vec, map, $ref struct,
nullable) x state {required, optional, schema default}; builder on. Operation sequences: every subset of setters, each
setter with each of <=3 values (two convertible ones obtained through from_value::<FieldTy>, and where the field type has
a fallible TryFrom<String> one inconvertible raw String), then try_into(); plus T -> builder -> T for every valid instance.
Oracle: Ok <=> all members without default set and all conversions ok; the error names the member; the built value equals
from_value(object with the same members); identity round trip."""
import itertools
import json

from .. import wire
from ..common import MachineryError, canon
from ..runner import Result, Violation

INT = {"type": "integer"}
P = {"type": "object", "properties": {"x": INT}, "required": ["x"]}
TYPES = {
    "string": ({"type": "string"}, ["s1", ""], None, "dflt"),
    "str_max2": ({"type": "string", "maxLength": 2}, ["ab", "c"], "toolong", "ab"),
    "enum_ab": ({"type": "string", "enum": ["a", "b"]}, ["a", "b"], "zz", "b"),
    "integer": (INT, [1, -5], None, 7),
    "u8": ({"type": "integer", "format": "uint8", "minimum": 0}, [0, 255], None, 9),
    "i32_neg": ({"type": "integer", "format": "int32"}, [3, -4], None, -5),
    "i8_min": ({"type": "integer", "format": "int8"}, [-128, 127], None, -128),
    "num_neg": ({"type": "number"}, [1.5, -0.5], None, -2.5),
    "bool": ({"type": "boolean"}, [True, False], None, True),
    "vec": ({"type": "array", "items": INT}, [[1, 2], []], None, [3]),
    "tuple1": ({"type": "array", "items": [INT], "minItems": 1, "maxItems": 1}, [[5], [0]], None, [7]),
    "set": ({"type": "array", "items": INT, "uniqueItems": True}, [[1, 2], []], None, [3]),
    "set_str": ({"type": "array", "items": {"type": "string"}, "uniqueItems": True}, [["a"], []], None, None),
    "array2": ({"type": "array", "items": INT, "minItems": 2, "maxItems": 2}, [[1, 2], [0, 0]], None, [3, 4]),
    "map_any": ({"type": "object"}, [{"k": [1]}, {}], None, {"d": 1}),
    "map_keyed": ({"type": "object", "additionalProperties": INT, "propertyNames": {"type": "string", "pattern": "^[a-z]+$"}}, [{"k": 1}, {}], None, None),
    "number": ({"type": "number"}, [1.5, 0], None, 2.5),
    "nz32": ({"type": "integer", "format": "uint32", "minimum": 1}, [1, 7], None, 5),
    "opt_ref": ({"oneOf": [{"$ref": "#/definitions/P"}, {"type": "null"}]}, [{"x": 1}, None], None, None),
    "inline_struct": ({"type": "object", "properties": {"q": INT}, "required": ["q"]}, [{"q": 1}, {"q": 2}], None, {"q": 9}),
    "inline_enum": ({"type": "string", "enum": ["x", "y"]}, ["x", "y"], "zz", "y"),
    "map": ({"type": "object", "additionalProperties": INT}, [{"k": 1}, {}], None, {"tier": 2}),
    "ref": ({"$ref": "#/definitions/P"}, [{"x": 1}, {"x": 2}], None, {"x": 5}),
    "nullable": ({"type": ["string", "null"]}, ["n", None], None, "nd"),
    "unit": ({"type": "null"}, [None], None, None),
    "any": ({}, [1, {"k": [True]}], None, {"d": 1}),
    "tuple": ({"type": "array", "items": [INT, {"type": "string"}], "minItems": 2, "maxItems": 2}, [[1, "a"], [2, ""]], None, [7, "d"]),
    # references to constrained newtypes that carry a definition-level default of their OWN (differing from the member's)
    "ref_label": ({"$ref": "#/definitions/Label"}, ["ab", "c"], "x" * 17, "root"),
    "ref_level": ({"$ref": "#/definitions/Level"}, [1, 3], None, 3),
    "uuid": ({"type": "string", "format": "uuid"}, ["00000000-0000-0000-0000-000000000000", "f81d4fae-7dec-11d0-a765-00a0c91e6bf6"], None, None),
}
STATES = ["req", "opt", "dflt", "dflt0"]
# the schema restates the type's implicit default (0, "", false, [], {}, null): typify treats the member like an optional one
INTRINSIC0 = {"string": "", "str_max2": "", "integer": 0, "u8": 0, "bool": False, "vec": [], "map": {}, "number": 0, "set": [], "map_any": {}, "nullable": None,
              "ref_label": "", "ref_level": 0, "any": None, "unit": None, "map_keyed": {}, "set_str": [], "opt_ref": None}
XDEFS = {"Label": {"type": "string", "maxLength": 16, "default": "anon"}, "Level": {"type": "integer", "enum": [0, 1, 2, 3], "default": 2}}
NAMES = ["a", "foo-bar", "c"]


def member(tname, state):
    schema, vals, raw, d = TYPES[tname]
    s = dict(schema)
    if state == "dflt0":
        if tname not in INTRINSIC0:
            return None
        s["default"] = INTRINSIC0[tname]
        return {"type": tname, "state": state, "schema": s, "vals": vals, "raw": raw, "default": INTRINSIC0[tname]}
    if state == "dflt":
        if d is None:
            return None
        if "$ref" in s:
            s = {"default": d, "allOf": [schema]}
        else:
            s["default"] = d
    return {"type": tname, "state": state, "schema": s, "vals": vals, "raw": raw, "default": d if state == "dflt" else None}


def specs():
    out = []
    for t in TYPES:
        for st in STATES:
            m = member(t, st)
            if m:
                out.append(m)
    return out


def mk(members):
    props, req = {}, []
    for name, m in zip(NAMES, members):
        props[name] = m["schema"]
        if m["state"] == "req":
            req.append(name)
    T = {"type": "object", "properties": props}
    if req:
        T["required"] = req
    doc = {"definitions": dict({"P": P, "T": T}, **({k: v for k, v in XDEFS.items() if any(m["type"] == "ref_" + k.lower() for m in members)}))}
    mid = "+".join("%s:%s" % (m["type"], m["state"]) for m in members)
    return {"id": "builder[%s]" % mid, "doc": doc, "target": "T", "members": [dict(m, name=n) for n, m in zip(NAMES, members)],
            "settings": {"struct_builder": True}}


def recursive_cases():
    """structs that refer to themselves (the member type becomes Option<Box<T>>, Box<Option<T>>, Vec<T>, ... depending on where the
    cycle breaker enters), with and without an earlier-sorting definition `A` that reaches T first"""
    out = []
    REF_T = {"$ref": "#/definitions/T"}
    self_kinds = {"self": (REF_T, [{"a": "s1"}, {"a": "", "foo-bar": {"a": "s1"}}]),
                  "self_nullable": ({"oneOf": [REF_T, {"type": "null"}]}, [{"a": "s1"}, None]),
                  "self_vec": ({"type": "array", "items": REF_T}, [[], [{"a": "s1"}]])}
    firsts = {"none": None, "opt": {"type": "object", "properties": {"pinned": REF_T}},
              "req": {"type": "object", "properties": {"pinned": REF_T}, "required": ["pinned"]},
              "nullable": {"type": "object", "properties": {"pinned": {"oneOf": [REF_T, {"type": "null"}]}}},
              "vec": {"type": "object", "properties": {"pinned": {"type": "array", "items": REF_T}}}}
    for sk, (schema, vals) in self_kinds.items():
        for state in ("opt", "req") if sk != "self" else ("opt",):
            for fk, first in firsts.items():
                if state == "req":   # nested samples must themselves carry the required member
                    vals = {"self_nullable": [None, {"a": "s1", "foo-bar": None}], "self_vec": [[], [{"a": "s1", "foo-bar": []}]]}[sk]
                ms = [dict(member("string", "req"), name="a"),
                      {"type": sk, "state": state, "schema": schema, "vals": vals, "raw": None, "default": None, "name": "foo-bar"}]
                T = {"type": "object", "properties": {"a": ms[0]["schema"], "foo-bar": schema}, "required": ["a"] + (["foo-bar"] if state == "req" else [])}
                defs = {"P": P, "T": T}
                if first:
                    defs["A"] = first
                out.append({"id": "builder[string:req+%s:%s|first=%s]" % (sk, state, fk), "doc": {"definitions": defs}, "target": "T", "members": ms,
                            "settings": {"struct_builder": True}})
    return out


def inline_cases():
    """the struct under test is the INLINE type of a property that carries an object-level default (the default mentions every member);
    the builder of that inner struct must still demand its required members"""
    out = []
    sp = {(m["type"], m["state"]): m for m in specs()}
    combos = [[("string", "req")], [("string", "req"), ("integer", "opt")], [("enum_ab", "req"), ("integer", "dflt")], [("vec", "req"), ("str_max2", "req")],
              [("ref", "req"), ("bool", "opt")], [("integer", "req"), ("string", "req"), ("map", "opt")], [("nullable", "req")], [("set", "req"), ("string", "opt")]]
    for combo in combos:
        ms = [sp[k] for k in combo]
        base = mk(ms)
        T = dict(base["doc"]["definitions"]["T"])
        T["default"] = {n: m["vals"][0] for n, m in zip(NAMES, ms)}
        for req_outer in (False, True):
            outer = {"type": "object", "properties": {"t": T, "z": INT}}
            if req_outer:
                outer["required"] = ["t"]
            c = dict(base, id=base["id"].replace("builder[", "builder-inline[") + ("|req" if req_outer else ""), doc={"definitions": {"P": P, "Outer": outer}}, target="Outer", tname="OuterT")
            out.append(c)
    return out


def flat_union_cases():
    """structs of flattened Option members (what typify writes for an anyOf of objects it cannot prove exclusive): no member is ever required, so the
    empty builder builds what {} deserialises to, and T -> builder -> T is the identity"""
    out = []
    e = {"type": "string"}
    variants = {"overlap": [{"type": "object", "properties": {"email": e, "phone": e}, "required": ["email"]}, {"type": "object", "properties": {"email": e, "phone": e}, "required": ["phone"]}],
                "open_pair": [{"type": "object", "properties": {"a": INT}}, {"type": "object", "properties": {"b": INT}}]}
    for vn, subs in variants.items():
        out.append({"id": "builder[anyof-flat:%s]" % vn, "doc": {"definitions": {"P": P, "T": {"anyOf": subs}}}, "target": "T", "members": [], "settings": {"struct_builder": True}})
    return out


VMAP = "::verif_support::ext::VMap"


def map_type_cases():
    """map-typed members under a consumer-chosen map type (not std's): an optional map member still starts empty in the builder"""
    out = []
    sp = {(m["type"], m["state"]): m for m in specs()}
    for mt in (VMAP, "std::collections::BTreeMap"):
        for k in (("map", "opt"), ("map", "req"), ("map", "dflt"), ("map", "dflt0"), ("map_keyed", "opt"), ("map_any", "opt")):
            if k not in sp:
                continue
            for extra in ((), (("string", "req"),)):
                ms = [sp[k]] + [sp[e] for e in extra]
                c = mk(ms)
                c["id"] = c["id"].replace("builder[", "builder-maptype[%s|" % mt.split("::")[-1])
                c["settings"] = {"struct_builder": True, "map_type": mt}
                out.append(c)
    return out


def cases(tier, seed):
    sp = specs()
    out = [mk([m]) for m in sp]
    out += flat_union_cases()
    out += map_type_cases()
    out += recursive_cases()
    out += inline_cases()
    if tier == "quick":
        core = [m for m in sp if m["type"] in ("string", "str_max2", "enum_ab", "vec", "map", "ref") and True]
        pairs = [(a, b) for a in core[::2] for b in core[1::3]]
        out += [mk([a, b]) for a, b in pairs[:30]]
        out += [mk([sp[i], sp[(i * 7 + 3) % len(sp)], sp[(i * 11 + 5) % len(sp)]]) for i in range(0, len(sp), 3)]
    else:
        out += [mk([a, b]) for a in sp for b in sp]
        red = [m for m in sp if m["type"] in ("str_max2", "enum_ab", "vec", "map", "ref", "nullable")]
        out += [mk([a, b, c]) for a in red for b in red[::2] for c in red[1::3]]
    seen, res = set(), []
    for c in out:
        if c["id"] not in seen:
            seen.add(c["id"])
            res.append(c)
    return res


def field_map(scan, tname="T"):
    root = (scan or {}).get("mods", {}).get("", [])
    st = [it for it in root if it.get("kind") == "struct" and it["name"] == tname and it["body"]["style"] == "named"]
    if not st:
        return None
    out = {}
    for f in st[0]["body"]["fields"]:
        wire_name = f["name"]
        for s in f["attrs"]["serde"]:
            if s["key"] == "rename" and isinstance(s["value"], str):
                wire_name = s["value"]
        out[wire_name] = (f["name"], f["ty"])
    return out


def decorate(wc, a):
    tn = wc.placed.get("tname", "T")
    fm = field_map(a.get("scan"), tn)
    if fm is None:
        return {}
    tb = wire.traits_by_type(a.get("scan"))
    lines = []
    lines.append('    pub fn probe(kind: &str, arg: &str) -> Option<Value> {')
    lines.append('        match kind {')
    lines.append('            "build" => Some(vs::guard(|| {')
    lines.append('                let spec: Value = serde_json::from_str(arg).unwrap();')
    lines.append('                let mut b = %s::builder();' % tn)
    raw_ok = {}
    for wname, (ident, ty) in sorted(fm.items()):
        traits = tb.get(ty.replace(" ", ""), set())
        can_raw = any(t.replace(" ", "") in ("::std::convert::TryFrom<::std::string::String>", "::std::convert::TryFrom<String>") for t in traits)
        raw_ok[wname] = can_raw
        lines.append('                if let Some(v) = spec.get(%s) {' % json.dumps(wname))
        if can_raw:
            lines.append('                    if let Some(raw) = v.get("raw").and_then(|r| r.as_str()) { b = b.%s(raw.to_string()); } else' % ident)
        lines.append('                    { let x: %s = serde_json::from_value(v["val"].clone()).expect("convertible sample"); b = b.%s(x); }' % (ty, ident))
        lines.append('                }')
    lines.append('                let r: ::std::result::Result<%s, _> = b.try_into();' % tn)
    lines.append('                match r { Ok(t) => json!({"ok": true, "w": serde_json::to_value(&t).unwrap()}), Err(e) => json!({"ok": false, "err": e.to_string()}) }')
    lines.append('            })),')
    lines.append('            "identity" => Some(vs::guard(|| {')
    lines.append('                let t: %s = match serde_json::from_str(arg) { Ok(t) => t, Err(e) => return json!({"ok": false, "de_err": e.to_string()}) };' % tn)
    lines.append('                let orig = serde_json::to_value(&t).unwrap();')
    lines.append('                let b: builder::%s = t.into();' % tn)
    lines.append('                let r: ::std::result::Result<%s, _> = b.try_into();' % tn)
    lines.append('                match r { Ok(t2) => json!({"ok": true, "w": serde_json::to_value(&t2).unwrap(), "orig": orig}), Err(e) => json!({"ok": false, "err": e.to_string()}) }')
    lines.append('            })),')
    lines.append('            _ => None,')
    lines.append('        }')
    lines.append('    }')
    wc.extra_obs["fields"] = fm
    wc.extra_obs["raw_ok"] = raw_ok
    return {"extra": "\n".join(lines) + "\n"}


def sequences(c, raw_ok):
    """every subset of setters x every value choice"""
    ms = c["members"]
    choices = []
    for m in ms:
        opts = [None] + [("val", v) for v in m["vals"]]
        if m["raw"] is not None and raw_ok.get(m["name"]):
            opts.append(("raw", m["raw"]))
        choices.append(opts)
    for combo in itertools.product(*choices):
        spec = {}
        for m, ch in zip(ms, combo):
            if ch is None:
                continue
            spec[m["name"]] = {"val": ch[1]} if ch[0] == "val" else {"raw": ch[1]}
        yield spec


def execute(cases_, tier, seed):
    res = Result()
    placed = [{k: v for k, v in c.items()} for c in cases_]
    # pass 1: compile with the probe code; pass 2 (same batch) would need the sequences, which depend on the scan -> use run_x
    wcs = run_with_sequences(placed, tier, len(cases_) > 1)
    res.rule = ("one case = one struct; every subset of setters x value choices is one operation sequence ending in try_into(); non-trivial = struct with "
                ">=1 member without default (so that both Ok and Err sequences exist); distinct by schema document")
    n_seq = n_id = 0
    for c, (wc, seqs, outs, ids) in zip(cases_, wcs):
        res.states += 1
        res.transitions += 1
        if not wc.compiled:
            continue
        feats = {"id": c["id"], "members": "+".join("%s:%s" % (m["type"], m["state"]) for m in c["members"])}
        if any(m["state"] == "req" for m in c["members"]):
            res.nontrivial += 1
        fm = wc.extra_obs.get("fields") or {}
        bad = {}
        for spec, (r, de) in zip(seqs, outs):
            n_seq += 1
            res.transitions += 1
            unset_required = [m for m in c["members"] if m["state"] == "req" and m["name"] not in spec]
            raw_bad = [m for m in c["members"] if m["name"] in spec and "raw" in spec[m["name"]]]
            want_ok = not unset_required and not raw_bad
            got_ok = bool((r or {}).get("ok"))
            if got_ok != want_ok:
                bad.setdefault("build-ok-mismatch", []).append({"sequence": spec, "expected_ok": want_ok, "observed": r})
                continue
            if not want_ok:
                err = str((r or {}).get("err", ""))
                culprits = unset_required + raw_bad
                names = []
                for m in culprits:
                    names += [m["name"], fm.get(m["name"], ("?",))[0]]
                if not any(n and n in err for n in names):
                    bad.setdefault("error-does-not-name-member", []).append({"sequence": spec, "err": err, "expected_one_of": names})
                continue
            # built value == from_value(object with the same members)
            obj = {k: v["val"] for k, v in spec.items()}
            if not (de or {}).get("ok"):
                bad.setdefault("reference-deserialize-failed", []).append({"sequence": spec, "de": de})
            elif canon((de.get("w") or {}).get("v")) != canon(r.get("w")):
                bad.setdefault("built-differs-from-deserialized", []).append({"sequence": spec, "built": r.get("w"), "deserialized": (de.get("w") or {}).get("v"), "object": obj})
        for inst, r in ids:
            n_id += 1
            res.transitions += 1
            if "de_err" in (r or {}):
                continue
            if not (r or {}).get("ok") or canon(r.get("w")) != canon(r.get("orig")):
                bad.setdefault("builder-roundtrip-not-identity", []).append({"instance": inst, "observed": r})
        for mode, items in bad.items():
            res.violations.append(Violation(wc.key, mode, "%s: %s, e.g. %s" % (c["id"], mode, json.dumps(items[0])[:300]), c, expected="see mode", observed=items[:6],
                                            features=feats, items=[i.get("sequence", i.get("instance")) for i in items]))
    res.evaluations = res.transitions
    res.extra.update({"operation_sequences": n_seq, "identity_roundtrips": n_id})
    res.samples = [{"id": c["id"], "T": c["doc"]["definitions"].get("T") or c["doc"]["definitions"].get("Outer")} for c in cases_[:: max(1, len(cases_) // 4)]][:4]
    res.bound = "tier=%s: %d structs of <=3 members over %d member specs; all setter subsets x <=3 values" % (tier, len(cases_), len(specs()))
    res.assumptions = ["convertible sample values are built through from_value::<FieldTy> so no Rust literals are generated"]
    if not res.violations and (len(cases_) > 20 and (n_seq < 300 or n_id < 30)):   # a subject that breaks everything is reported through its violations, not as vacuity
        raise MachineryError("vacuity guard: sequences=%d identity=%d" % (n_seq, n_id))
    return res


def run_with_sequences(placed, tier, cache):
    """compile once (probe code depends only on the scan), then run build/de/identity probes"""
    from .. import adapter, batch
    jobs = [{"id": str(i), "settings": p["settings"], "ops": [{"root": p["doc"]}], "want": ["pretty", "scan"]} for i, p in enumerate(placed)]
    ans = adapter.run_jobs(jobs)
    wcs, bcs = [], []
    for i, p in enumerate(placed):
        a = ans[str(i)]
        wc = wire.WireCase()
        wc.id, wc.placed, wc.settings = p["id"], p, p["settings"]
        wc.key = wire.key_of(["c18", p["id"], p["doc"]])
        wc.answer = a
        wc.compiled = None
        wc.errors = []
        ok = (a.get("ops") or [{}])[0].get("status") == "ok" and (a.get("render") or {}).get("status") == "ok" and a.get("syn_ok")
        if ok:
            deco = decorate(wc, a)
            if deco:
                bcs.append(batch.Case(wc.key, a["pretty"], {p.get("tname", "T"): ["de"]}, extra=deco["extra"]))
        wcs.append(wc)
    out = []
    if bcs:
        b = batch.Batch("c18_" + tier if cache else "c18_replay", bcs)
        comp = b.compile()
        probes, index = [], []
        plan = {}
        for p, wc in zip(placed, wcs):
            if wc.key in comp:
                wc.compiled = comp[wc.key]["ok"]
                wc.errors = comp[wc.key]["errors"]
            if not wc.compiled:
                continue
            seqs = list(sequences(p, wc.extra_obs.get("raw_ok", {})))
            plan[wc.key] = seqs
            for s in seqs:
                probes.append((wc.key, "@x", "build", json.dumps(s)))
                obj = {k: v["val"] for k, v in s.items() if "val" in v}
                probes.append((wc.key, p.get("tname", "T"), "de", json.dumps(obj)))
            # identity: objects with all members set to each value
            for s in seqs:
                if all("val" in v for v in s.values()) and all(m["name"] in s for m in p["members"] if m["state"] == "req"):
                    obj = {k: v["val"] for k, v in s.items()}
                    probes.append((wc.key, "@x", "identity", json.dumps(obj)))
        results = b.run(probes)
        pos = 0
        for p, wc in zip(placed, wcs):
            if not wc.compiled:
                out.append((wc, [], [], []))
                continue
            seqs = plan[wc.key]
            outs = []
            for s in seqs:
                outs.append((results[pos], results[pos + 1]))
                pos += 2
            ids = []
            for s in seqs:
                if all("val" in v for v in s.values()) and all(m["name"] in s for m in p["members"] if m["state"] == "req"):
                    ids.append(({k: v["val"] for k, v in s.items()}, results[pos]))
                    pos += 1
            out.append((wc, seqs, outs, ids))
        b.cleanup()
    else:
        out = [(wc, [], [], []) for wc in wcs]
    return out
