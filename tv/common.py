"""Shared plumbing: paths, canonical hashing, subprocess helpers."""
import hashlib
import json
import os
import subprocess
import sys
import time

VERIF = os.path.dirname(os.path.dirname(os.path.abspath(__file__)))
REPO = os.environ.get("VERIF_REPO", "/repo")
WORK = os.path.join(VERIF, "work")
ENGINE = os.path.join(VERIF, "engine")
EVIDENCE = os.path.join(VERIF, "evidence")
REPLAYS = os.path.join(VERIF, "replays")
NPROC = int(os.environ.get("VERIF_NPROC", "16"))
TOOLCHAIN = "+1.80.1"

CARGO_ENV = dict(os.environ)
CARGO_ENV.update({"CARGO_NET_OFFLINE": "true", "CARGO_TERM_COLOR": "never", "RUSTFLAGS": os.environ.get("RUSTFLAGS", "")})


class MachineryError(Exception):
    """Anything that is the framework's fault (exit code 2), never a verdict."""


def canon(obj):
    return json.dumps(obj, sort_keys=True, separators=(",", ":"), ensure_ascii=False)


def key_of(obj):
    return hashlib.sha256(canon(obj).encode("utf-8")).hexdigest()[:20]


def log(*a):
    print(*a, file=sys.stderr, flush=True)


def run(cmd, cwd=None, env=None, input=None, timeout=None, check=False):
    p = subprocess.run(cmd, cwd=cwd, env=env or CARGO_ENV, input=input, stdout=subprocess.PIPE,
                       stderr=subprocess.PIPE, timeout=timeout)
    if check and p.returncode != 0:
        raise MachineryError("command failed: %s\n%s\n%s" % (cmd, p.stdout.decode(errors="replace")[-4000:],
                                                               p.stderr.decode(errors="replace")[-4000:]))
    return p


class Timer:
    def __init__(self):
        self.t0 = time.time()

    def s(self):
        return round(time.time() - self.t0, 2)


def ensure_dir(p):
    os.makedirs(p, exist_ok=True)
    return p
